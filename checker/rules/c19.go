package rules

import (
	"go/token"
	"go/types"
	"sort"
	"strings"

	"golang.org/x/tools/go/ssa"

	"verif/checker/flow"
	"verif/checker/ir"
)

// C19 — client-side customisation applies to every outbound HTTP request.
//
// Request builders are discovered as the library functions that call http.NewRequest*.
// For each builder, between construction and dispatch:
//
//	R-static-headers   the loop over the transport's configured http.Header field adds to this request
//	R-before-request   every path to the dispatch passes exactly one before-request hook call with this
//	                   request (only the "no owning client" nil-check may bypass it); the hook's error
//	                   edge never reaches the dispatch; the hook's context derives from the builder's own
//	                   context parameter, never from context.Background()
//	R-via-handler      the dispatch is HTTPReqHandler.Handle; (*http.Client).Do only on the handler==nil edge
//	R-path             sibling agreement per transport: if any builder applies the configured path, all do
//	R-session-header   sibling agreement per transport: if any builder sets Mcp-Session-Id, all do
//	R-url-verbatim      the request address is the configured URL rendered verbatim
//	R-path-verbatim     the member copied into the request URL.s path holds the configured path as given
//	R-hook-error-fails  every client function on the way up hands the error of a send on (no successful return from its failed edge)
func init() { Registry["C19"] = checkC19 }

type builder struct {
	fn       *ssa.Function
	newReq   *ssa.Call     // the http.NewRequest* call, or the call of a request factory (see urlSite / factory)
	factory  *ssa.Function // non-nil: the library function that created the request for this builder
	facReq   ssa.Value     // the request value inside the factory
	facNew   *ssa.Call     // the http.NewRequest* call inside the factory
	req      ssa.Value     // *http.Request value
	dispatch []*ssa.Call
	recv     *types.Named
}

func isHTTPRequestPtr(t types.Type) bool { return ir.TypeStr(t) == "*net/http.Request" }

func checkC19(c *Ctx) {
	c.R.Explanation = "Must-pass-through analysis of every HTTP request builder of the clients (functions calling http.NewRequest*, discovered on each run): " +
		"static header loop, before-request hook (exactly once, error edge cut, context provenance), dispatch through HTTPReqHandler, and sibling agreement on custom path and session header."
	c.R.NotDecided = "what a user-supplied HTTPReqHandler or before-request function does; header values at run time"
	c.R.Assumptions = []string{"builders construct and dispatch the request in one function (true for all builders today; a builder that hands the request to a helper is reported as undecided)"}

	hookType := c.P.RootNamed("HTTPBeforeRequestFunc")
	handlerIface := c.P.RootNamed("HTTPReqHandler")
	if hookType == nil || handlerIface == nil {
		c.R.Break("anchor not found: exported types HTTPBeforeRequestFunc / HTTPReqHandler")
		return
	}
	// hook appliers: functions that call a value of type HTTPBeforeRequestFunc
	appliers := map[*ssa.Function]bool{}
	for _, fn := range c.P.LibFns {
		ir.EachCall(fn, func(call ssa.CallInstruction) {
			cc := call.Common()
			if cc.IsInvoke() {
				return
			}
			if types.Identical(cc.Value.Type(), hookType) {
				appliers[fn] = true
			}
		})
	}
	if len(appliers) == 0 {
		c.R.Break("no function invokes a HTTPBeforeRequestFunc value: the hook is never applied")
		return
	}
	// wrappers: a function that hands its *http.Request parameter to an applier on every path, except where a member it
	// needs for that (the owning client) is nil, applies the hook just as well
	for iter := 0; iter < 3; iter++ {
		for _, fn := range c.P.LibFns {
			if appliers[fn] {
				continue
			}
			var reqParam *ssa.Parameter
			for _, p := range fn.Params {
				if isHTTPRequestPtr(p.Type()) {
					reqParam = p
				}
			}
			if reqParam == nil {
				continue
			}
			var calls []ssa.Instruction
			ir.EachInstr(fn, func(_ *ssa.BasicBlock, _ int, in ssa.Instruction) {
				call, ok := in.(*ssa.Call)
				if !ok {
					return
				}
				if sc := ir.StaticCallee(call); sc != nil && appliers[sc] {
					for _, a := range call.Call.Args {
						if a == ssa.Value(reqParam) {
							calls = append(calls, in)
						}
					}
				}
			})
			if len(calls) == 0 {
				continue
			}
			// no path from the entry to a return may skip the applier, except over the "member is nil" edge of a test of
			// a member (no owning client: nothing to apply)
			okAll := true
			callBlock := map[*ssa.BasicBlock]bool{}
			for _, cl := range calls {
				callBlock[cl.Block()] = true
			}
			seenB := map[*ssa.BasicBlock]bool{fn.Blocks[0]: true}
			stack := []*ssa.BasicBlock{fn.Blocks[0]}
			for len(stack) > 0 {
				blk := stack[len(stack)-1]
				stack = stack[:len(stack)-1]
				if callBlock[blk] {
					continue // from here on the hook has been applied
				}
				last := blk.Instrs[len(blk.Instrs)-1]
				if _, isRet := last.(*ssa.Return); isRet && blk != fn.Recover {
					okAll = false
					break
				}
				skip := -1
				if ifi, ok := last.(*ssa.If); ok {
					if v, op, ok := nilCompare(ifi.Cond); ok {
						if _, _, isField := ir.LoadedField(v); isField {
							skip = 0 // == nil: the true successor is the nil edge
							if op == token.NEQ {
								skip = 1
							}
						}
					}
				}
				for i, sct := range blk.Succs {
					if i == skip || seenB[sct] {
						continue
					}
					seenB[sct] = true
					stack = append(stack, sct)
				}
			}
			if okAll {
				appliers[fn] = true
			}
		}
	}

	var builders []*builder
	for _, fn := range c.P.LibFns {
		ir.EachInstr(fn, func(_ *ssa.BasicBlock, _ int, in ssa.Instruction) {
			call, ok := in.(*ssa.Call)
			if !ok {
				return
			}
			n := ir.CallName(call)
			if n != "net/http.NewRequestWithContext" && n != "net/http.NewRequest" {
				return
			}
			b := &builder{fn: fn, newReq: call}
			// the request value: extract #0 of the tuple
			for _, r := range *call.Referrers() {
				if ex, ok := r.(*ssa.Extract); ok && ex.Index == 0 {
					b.req = ex
				}
			}
			if recv := fn.Signature.Recv(); recv != nil {
				t := recv.Type()
				if pt, ok := t.(*types.Pointer); ok {
					t = pt.Elem()
				}
				b.recv, _ = t.(*types.Named)
			}
			builders = append(builders, b)
		})
	}
	// request factories: a function that creates the request and returns it (without dispatching it) is not a builder
	// itself; every library call of it is — the caller adds the headers, runs the hook and dispatches
	var real []*builder
	for _, b := range builders {
		idx := -1
		if b.req != nil {
			ir.EachInstr(b.fn, func(blk *ssa.BasicBlock, _ int, in ssa.Instruction) {
				if r, ok := in.(*ssa.Return); ok && blk != b.fn.Recover {
					for i, rv := range ir.Results(r) {
						if derivedReq(b.req)[rv] {
							idx = i
						}
					}
				}
			})
		}
		if idx < 0 {
			real = append(real, b)
			continue
		}
		for _, e := range ir.Callers(c.G, b.fn) {
			call, ok := e.Site.(*ssa.Call)
			if !ok || !c.P.IsLib(e.Caller.Func) {
				continue
			}
			nb := &builder{fn: e.Caller.Func, newReq: call, factory: b.fn, facReq: b.req, facNew: b.newReq}
			if call.Call.Signature().Results().Len() == 1 {
				nb.req = call
			} else {
				for _, r := range *call.Referrers() {
					if ex, ok := r.(*ssa.Extract); ok && ex.Index == idx {
						nb.req = ex
					}
				}
			}
			if recv := nb.fn.Signature.Recv(); recv != nil {
				t := recv.Type()
				if pt, ok := t.(*types.Pointer); ok {
					t = pt.Elem()
				}
				nb.recv, _ = t.(*types.Named)
			}
			real = append(real, nb)
		}
	}
	builders = real
	sort.Slice(builders, func(i, j int) bool { return builders[i].fn.String() < builders[j].fn.String() })
	if len(builders) < 5 { // (9 on the reference tree; shared request helpers legitimately reduce the count)
		c.R.Break("found %d HTTP request builders, expected at least 5", len(builders))
	}
	var names []string
	for _, b := range builders {
		names = append(names, fname(b.fn))
	}
	c.R.Extra["request_builders"] = names

	pathAppliers := map[string][]*builder{}   // transport -> builders applying path
	sessionSetters := map[string][]*builder{} // transport -> builders setting Mcp-Session-Id
	byTransport := map[string][]*builder{}
	for _, b := range builders {
		bn := fname(b.fn)
		if b.req == nil {
			c.R.Add(reportUndecided("R-via-handler", bn, c.Pos(b.newReq.Pos()), "request value not bound"))
			continue
		}
		tkey := ""
		if b.recv != nil {
			tkey = ir.TypeKey(b.recv)
		}
		byTransport[tkey] = append(byTransport[tkey], b)

		// dispatch sites: calls taking this request as an argument and returning *http.Response
		reqVals := derivedReq(b.req)
		ir.EachInstr(b.fn, func(_ *ssa.BasicBlock, _ int, in ssa.Instruction) {
			call, ok := in.(*ssa.Call)
			if !ok {
				return
			}
			uses := false
			for _, a := range call.Call.Args {
				if reqVals[a] {
					uses = true
				}
			}
			if !uses {
				return
			}
			n := ir.CallName(call)
			if n == "(mcp.HTTPReqHandler).Handle" || n == "(*net/http.Client).Do" || dispatchWrapper(c, call) != "" {
				b.dispatch = append(b.dispatch, call)
			}
		})
		if len(b.dispatch) == 0 {
			c.R.Violate("R-via-handler", bn, c.Pos(b.newReq.Pos()), sprintf("%s builds an HTTP request but never dispatches it through HTTPReqHandler.Handle or (*http.Client).Do in the same function", bn))
			continue
		}

		// ---- R-via-handler
		for _, d := range b.dispatch {
			n := ir.CallName(d)
			if w := dispatchWrapper(c, d); w != "" {
				n = w
			}
			if n == "(mcp.HTTPReqHandler).Handle" {
				c.R.Hold("R-via-handler", bn+" dispatch", c.Pos(d.Pos()), "dispatched through the configured HTTPReqHandler")
				continue
			}
			// direct Do: only on the handler == nil edge
			okNil := false
			for _, g := range flow.Guards(b.fn, d.Block()) {
				if bin, ok := g.If.Cond.(*ssa.BinOp); ok {
					isNilCmp := ir.IsNilConst(bin.Y) || ir.IsNilConst(bin.X)
					v := bin.X
					if ir.IsNilConst(bin.X) {
						v = bin.Y
					}
					if isNilCmp && ir.TypeStr(v.Type()) == "mcp.HTTPReqHandler" {
						if (bin.Op == token.NEQ && !g.Branch) || (bin.Op == token.EQL && g.Branch) {
							okNil = true
						}
					}
				}
			}
			c.R.Check(okNil, "R-via-handler", bn+" direct Do", c.Pos(d.Pos()), "direct Do only when no handler is configured",
				sprintf("%s sends the request with (*http.Client).Do, bypassing the configured HTTPReqHandler", bn))
		}

		// ---- R-static-headers
		hdrOK, hdrWhy := staticHeadersApplied(c, b)
		facHdr, facHook := false, false
		if b.factory != nil {
			// the factory may hand back a request that is already complete: headers added and the before-request
			// function applied on every path to its successful return
			facHdr, facHook = factoryCompletes(c, b, appliers, hookType)
			if !hdrOK && facHdr {
				hdrOK, hdrWhy = true, "added by the request factory "+fname(b.factory)+" on every path to its successful return"
			}
		}
		c.R.Check(hdrOK, "R-static-headers", bn, c.Pos(b.newReq.Pos()), hdrWhy, sprintf("%s: %s", bn, hdrWhy))

		// ---- R-before-request
		if facHook {
			// applied by the factory: the caller must not apply it again
			again := false
			reqVals := derivedReq(b.req)
			ir.EachInstr(b.fn, func(_ *ssa.BasicBlock, _ int, in ssa.Instruction) {
				if call, ok := in.(*ssa.Call); ok {
					for _, a := range call.Call.Args {
						if reqVals[a] {
							if sc := ir.StaticCallee(call); sc != nil && appliers[sc] {
								again = true
							}
						}
					}
				}
			})
			c.R.Check(!again, "R-before-request", bn, c.Pos(b.newReq.Pos()), "applied exactly once, by the request factory "+fname(b.factory),
				sprintf("%s applies the before-request function to a request that its factory %s has already passed through it", bn, fname(b.factory)))
		} else {
			checkHook(c, b, appliers, hookType)
		}

		// ---- path / session header facts
		if appliesPath(c, b) {
			pathAppliers[tkey] = append(pathAppliers[tkey], b)
		}
		if setsHeaderConst(c, b, "Mcp-Session-Id") {
			sessionSetters[tkey] = append(sessionSetters[tkey], b)
		}
	}
	c.R.Min("R-static-headers", 9)
	c.R.Min("R-before-request", 9)
	c.R.Min("R-via-handler", 9)

	var tkeys []string
	for k := range byTransport {
		tkeys = append(tkeys, k)
	}
	sort.Strings(tkeys)
	for _, t := range tkeys {
		if len(pathAppliers[t]) > 0 {
			in := map[*builder]bool{}
			for _, b := range pathAppliers[t] {
				in[b] = true
			}
			for _, b := range byTransport[t] {
				c.R.Check(in[b], "R-path", fname(b.fn), c.Pos(b.newReq.Pos()), "configured path applied to the request URL",
					sprintf("%s does not apply the transport's configured path to the request URL although its sibling builders of %s do: the request goes to the default path", fname(b.fn), t))
			}
		}
		if len(sessionSetters[t]) > 0 {
			in := map[*builder]bool{}
			for _, b := range sessionSetters[t] {
				in[b] = true
			}
			for _, b := range byTransport[t] {
				c.R.Check(in[b], "R-session-header", fname(b.fn), c.Pos(b.newReq.Pos()), "Mcp-Session-Id set from the transport's session id",
					sprintf("%s never sets the Mcp-Session-Id header although its sibling builders of %s do", fname(b.fn), t))
			}
		}
	}
	anyPath := false
	for _, t := range tkeys {
		if len(pathAppliers[t]) > 0 {
			anyPath = true
		}
	}
	if anyPath {
		c.R.Min("R-path", 5)
	} else {
		c.R.Hold("R-path", "no builder overrides the path by assigning to the request URL", "", "how the configured URL reaches the request is judged by R-url-verbatim")
	}
	c.R.Min("R-session-header", 5)
	c19URLVerbatim(c, builders)
	c19PathVerbatim(c)
	c19HookErrorFails(c, builders)
	c19HandlerFactory(c)
	c19Suppressors(c, builders)
	c19HeaderMerge(c)
	c19SessionKept(c, builders)
	c19SessionAdopted(c)
	// the before-request function and the request see the context of the calling operation (its values), not the stream's
	if exec := c.P.Func(retryPkg, "Execute"); exec != nil {
		c17AttemptCtx(c, exec)
	}
}

// c19SessionKept (R-session-header): "once one has been issued, the session id" is carried by every request — so the
// member the builders take the Mcp-Session-Id header from is emptied only where the server's answer said the session is
// gone: every store of "" into it (directly, through its setter, or deferred) is control dependent on a test of an
// HTTP response's status code.
func c19SessionKept(c *Ctx, builders []*builder) {
	fields := map[string]bool{}
	for _, b := range builders {
		if b.req == nil {
			continue
		}
		reqVals := derivedReq(b.req)
		ir.EachCall(b.fn, func(call ssa.CallInstruction) {
			n := ir.CallName(call)
			if n != "(net/http.Header).Set" && n != "(net/http.Header).Add" {
				return
			}
			args := call.Common().Args
			if len(args) != 3 || !headerOfReq(args[0], reqVals) {
				return
			}
			if k, ok := ir.ConstStr(args[1]); !ok || !strings.EqualFold(k, "Mcp-Session-Id") {
				return
			}
			if f, _, ok := ir.LoadedField(args[2]); ok {
				fields[f.Key()] = true
			}
		})
	}
	if len(fields) == 0 {
		c.R.Break("anchor not found: the member the builders take the Mcp-Session-Id header from")
		return
	}
	// setters: library functions storing a string parameter into such a member
	setters := map[*ssa.Function]int{}
	for _, fn := range c.P.LibFns {
		ir.EachInstr(fn, func(_ *ssa.BasicBlock, _ int, in ssa.Instruction) {
			st, ok := in.(*ssa.Store)
			if !ok {
				return
			}
			fa, ok := st.Addr.(*ssa.FieldAddr)
			if !ok {
				return
			}
			if key, _, _, _ := ir.FullField(fa); !fields[key] {
				return
			}
			for i, p := range fn.Params {
				if st.Val == ssa.Value(p) {
					setters[fn] = i
				}
			}
		})
	}
	isEmpty := func(v ssa.Value) bool { s, ok := ir.ConstStr(v); return ok && s == "" }
	n := 0
	// clear sites; a function that clears unconditionally (a `clear()` helper) hands the obligation to its call sites
	type site struct {
		fn *ssa.Function
		in ssa.Instruction
	}
	var work []site
	for _, fn := range c.P.LibFns {
		if c.InitOnly()[fn] {
			continue
		}
		ir.EachInstr(fn, func(_ *ssa.BasicBlock, _ int, in ssa.Instruction) {
			switch x := in.(type) {
			case *ssa.Store:
				if fa, ok := x.Addr.(*ssa.FieldAddr); ok {
					key, _, _, base := ir.FullField(fa)
					if fields[key] && !ir.BaseAlloc(base) && isEmpty(x.Val) {
						work = append(work, site{fn, in})
					}
				}
			case ssa.CallInstruction:
				if sc := ir.StaticCallee(x); sc != nil {
					if i, ok := setters[sc]; ok && i < len(x.Common().Args) && isEmpty(x.Common().Args[i]) {
						work = append(work, site{fn, in})
					}
				}
			}
		})
	}
	pds := map[*ssa.Function]*flow.PostDom{}
	seenSite := map[ssa.Instruction]bool{}
	cnts := map[*ssa.Function]int{}
	for depth := 0; len(work) > 0 && depth < 4; depth++ {
		var next []site
		for _, st := range work {
			if seenSite[st.in] {
				continue
			}
			seenSite[st.in] = true
			fn, in := st.fn, st.in
			if pds[fn] == nil {
				pds[fn] = flow.NewPostDom(fn)
			}
			deps := pds[fn].ControlDepsTransitive(in.Block())
			onStatus := false
			for _, g := range deps {
				if bin, ok := g.If.Cond.(*ssa.BinOp); ok && (fieldLoadNamed(bin.X, "StatusCode") || fieldLoadNamed(bin.Y, "StatusCode")) {
					onStatus = true
				}
				// the verdict of a helper that is handed the answer and tests its status (err := statusError(resp))
				var verdict ssa.Value = g.If.Cond
				if v, _, ok := nilCompare(g.If.Cond); ok {
					verdict = v
				}
				if hc, ok := unspill(verdict).(*ssa.Call); ok {
					if sc := ir.StaticCallee(hc); sc != nil && c.P.IsLib(sc) {
						takesResp := false
						for _, a := range hc.Call.Args {
							if ir.TypeStr(a.Type()) == "*net/http.Response" {
								takesResp = true
							}
						}
						if takesResp {
							ir.EachInstr(sc, func(_ *ssa.BasicBlock, _ int, hin ssa.Instruction) {
								if bin, ok := hin.(*ssa.BinOp); ok && (fieldLoadNamed(bin.X, "StatusCode") || fieldLoadNamed(bin.Y, "StatusCode")) {
									onStatus = true
								}
							})
						}
					}
				}
			}
			_, deferred := in.(*ssa.Defer)
			if !onStatus && !deferred && len(deps) == 0 {
				// unconditional in this function: judged where the function is called
				lifted := false
				for _, e := range ir.Callers(c.G, fn) {
					if e.Site != nil && c.P.IsLib(e.Caller.Func) && !c.InitOnly()[e.Caller.Func] {
						next = append(next, site{e.Caller.Func, e.Site})
						lifted = true
					}
				}
				if lifted {
					continue
				}
			}
			n++
			cnts[fn]++
			how := "cleared"
			if deferred {
				how = "cleared by a deferred call, i.e. on every exit,"
			}
			c.R.Check(onStatus, "R-session-header", sprintf("session id cleared in %s#%d", fname(fn), cnts[fn]), c.Pos(in.Pos()),
				"the clear is controlled by the status of a server answer",
				sprintf("in %s the issued session id is %s on paths that no test of a server answer's status controls (a failed before-request function, a network error, a refused DELETE): the session lives on at the server, but every later request is sent without Mcp-Session-Id", fname(fn), how))
		}
		work = next
	}
	if n == 0 {
		c.R.Hold("R-session-header", "the issued session id is never cleared", "", "")
	}
}

// c19Suppressors: a boolean field that suppresses the session header (it is read in the guard of a
// Set(Mcp-Session-Id) of a builder) may be switched on after construction only under control of a
// comparison of the request's method with "initialize" — otherwise an ordinary answer without the
// header makes later requests drop the session id that was issued.
func c19Suppressors(c *Ctx, builders []*builder) {
	flags := map[string]bool{}
	for _, b := range builders {
		if b.req == nil {
			continue
		}
		reqVals := derivedReq(b.req)
		pd := flow.NewPostDom(b.fn)
		ir.EachCall(b.fn, func(call ssa.CallInstruction) {
			n := ir.CallName(call)
			if n != "(net/http.Header).Set" && n != "(net/http.Header).Add" {
				return
			}
			args := call.Common().Args
			if len(args) != 3 || !headerOfReq(args[0], reqVals) {
				return
			}
			if k, ok := ir.ConstStr(args[1]); !ok || !strings.EqualFold(k, "Mcp-Session-Id") {
				return
			}
			in := call.(ssa.Instruction)
			for _, g := range pd.ControlDepsTransitive(in.Block()) {
				cond := g.If.Cond
				if f, _, ok := ir.LoadedField(cond); ok {
					if bt, isB := f.Type.Underlying().(*types.Basic); isB && bt.Kind() == types.Bool && !g.Branch {
						flags[f.Key()] = true
					}
				}
				// the flag read through an accessor
				if k := getterField(c, cond); k != "" && !g.Branch && ir.TypeStr(cond.Type()) == "bool" {
					flags[k] = true
				}
			}
		})
	}
	n := 0
	for _, fn := range c.P.LibFns {
		if c.InitOnly()[fn] {
			continue
		}
		var pd *flow.PostDom
		ir.EachInstr(fn, func(_ *ssa.BasicBlock, _ int, in ssa.Instruction) {
			st, ok := in.(*ssa.Store)
			if !ok {
				return
			}
			fa, ok := st.Addr.(*ssa.FieldAddr)
			if !ok {
				return
			}
			key, _, _, base := ir.FullField(fa)
			if !flags[key] || ir.BaseAlloc(base) {
				return
			}
			cst, ok := st.Val.(*ssa.Const)
			if !ok || cst.Value == nil || cst.Value.String() != "true" {
				return
			}
			n++
			if pd == nil {
				pd = flow.NewPostDom(fn)
			}
			okInit := false
			for _, g := range pd.ControlDepsTransitive(st.Block()) {
				if g.Branch && boolFromCompare(c, fn, g.If.Cond, "initialize", 0) {
					okInit = true
				}
			}
			c.R.Check(okInit, "R-session-header", "suppressor "+key+" switched on in "+fname(fn), c.Pos(st.Pos()),
				"only the answer to initialize can switch the session header off",
				sprintf("%s switches %s on (which suppresses the Mcp-Session-Id header on later requests) on a path that is not restricted to the initialize exchange", fname(fn), key))
		})
	}
	if len(flags) > 0 && n == 0 {
		c.R.Hold("R-session-header", "suppressor flags never switched on after construction", "", "")
	}
}

// c19HeaderMerge: a configuration field of type http.Header must accumulate what the options pass:
// storing the option's own header value (or a clone of it) into the field replaces the headers
// configured by earlier options.
func c19HeaderMerge(c *Ctx) {
	n := 0
	for _, fn := range c.P.LibFns {
		ir.EachInstr(fn, func(_ *ssa.BasicBlock, _ int, in ssa.Instruction) {
			st, ok := in.(*ssa.Store)
			if !ok {
				return
			}
			fa, ok := st.Addr.(*ssa.FieldAddr)
			if !ok {
				return
			}
			key, _, typ, base := ir.FullField(fa)
			if key == "" || ir.TypeStr(typ) != "net/http.Header" || ir.BaseAlloc(base) {
				return
			}
			n++
			fromArg := false
			var visit func(v ssa.Value, d int)
			visit = func(v ssa.Value, d int) {
				if d > 4 {
					return
				}
				switch x := v.(type) {
				case *ssa.Parameter, *ssa.FreeVar:
					if ts := ir.TypeStr(x.Type()); ts == "net/http.Header" || ts == "*net/http.Header" {
						fromArg = true
					}
				case *ssa.Call:
					if ir.CallName(x) == "(net/http.Header).Clone" {
						visit(x.Call.Args[0], d+1)
					}
				case *ssa.ChangeType:
					visit(x.X, d+1)
				case *ssa.UnOp:
					if _, isFV := x.X.(*ssa.FreeVar); isFV {
						visit(x.X, d+1)
					}
				case *ssa.Phi:
					for _, e := range x.Edges {
						visit(e, d+1)
					}
				}
			}
			visit(st.Val, 0)
			c.R.Check(!fromArg, "R-static-headers", "header configuration stored in "+fname(fn)+" ("+key+")", c.Pos(st.Pos()),
				"the configured header set is only initialised empty / copied from configuration, entries are merged",
				sprintf("%s assigns the option's header set to %s instead of merging into it: headers configured by an earlier option are lost", fname(fn), key))
		})
	}
	if n < 2 {
		c.R.Break("expected header configuration stores in the client options (found %d)", n)
	}
}

// derivedReq: the request value and trivially derived values (phis of it).
func derivedReq(v ssa.Value) map[ssa.Value]bool {
	out := map[ssa.Value]bool{v: true}
	work := []ssa.Value{v}
	for len(work) > 0 {
		x := work[0]
		work = work[1:]
		if refs := x.Referrers(); refs != nil {
			for _, r := range *refs {
				switch y := r.(type) {
				case *ssa.Phi:
					if !out[y] {
						out[y] = true
						work = append(work, y)
					}
				case *ssa.Call:
					// req.WithContext(ctx), req.Clone(ctx)
					n := ir.CallName(y)
					if (n == "(*net/http.Request).WithContext" || n == "(*net/http.Request).Clone") && len(y.Call.Args) > 0 && y.Call.Args[0] == x {
						if !out[y] {
							out[y] = true
							work = append(work, y)
						}
					}
				}
			}
		}
	}
	return out
}

// headerOfReq: v is a load of req.Header.
func headerOfReq(v ssa.Value, reqVals map[ssa.Value]bool) bool {
	u, ok := v.(*ssa.UnOp)
	if !ok || u.Op != token.MUL {
		return false
	}
	fa, ok := u.X.(*ssa.FieldAddr)
	if !ok {
		return false
	}
	f, base, ok := ir.FieldOf(fa)
	return ok && f.Name == "Header" && reqVals[base]
}

// headerLoopSites: the instructions of fn at which the transport's configured headers are added to request req — a
// loop over an http.Header-typed field whose body adds to req's header, or a call handing req to a library helper
// that does so on all of its paths (followed two levels deep, so extracting the loop into a helper changes nothing).
func headerLoopSites(c *Ctx, fn *ssa.Function, req ssa.Value, depth int) (sites []ssa.Instruction, iteratedOnly bool) {
	reqVals := derivedReq(req)
	var ranges []*ssa.Range
	ir.EachInstr(fn, func(_ *ssa.BasicBlock, _ int, in ssa.Instruction) {
		r, ok := in.(*ssa.Range)
		if !ok {
			return
		}
		f, _, ok := ir.LoadedField(r.X)
		if ok && ir.TypeStr(f.Type) == "net/http.Header" {
			ranges = append(ranges, r)
		}
	})
	adds := false
	ir.EachCall(fn, func(call ssa.CallInstruction) {
		n := ir.CallName(call)
		// (Set inside the loop over a header's values keeps only the last of them: "carries every configured static
		// header" means every value, so only Add counts)
		if n == "(net/http.Header).Add" && len(call.Common().Args) == 3 {
			if headerOfReq(call.Common().Args[0], reqVals) {
				// key must come from the range (not a constant)
				if _, isConst := call.Common().Args[1].(*ssa.Const); !isConst {
					adds = true
				}
			}
		}
	})
	if adds {
		for _, r := range ranges {
			sites = append(sites, r)
		}
	} else if len(ranges) > 0 {
		iteratedOnly = true
	}
	// a header-level helper: addStaticHeaders(req.Header, t.configured) ranging over its second argument and adding to
	// its first
	ir.EachInstr(fn, func(_ *ssa.BasicBlock, _ int, in ssa.Instruction) {
		call, ok := in.(*ssa.Call)
		if !ok {
			return
		}
		sc := ir.StaticCallee(call)
		if sc == nil || !c.P.IsLib(sc) {
			return
		}
		dst, src := -1, -1
		for i, a := range call.Call.Args {
			if headerOfReq(a, reqVals) {
				dst = i
			} else if f, _, ok := ir.LoadedField(a); ok && ir.TypeStr(f.Type) == "net/http.Header" {
				src = i
			}
		}
		if dst < 0 || src < 0 || dst >= len(sc.Params) || src >= len(sc.Params) {
			return
		}
		ranges, addsTo := false, false
		ir.EachInstr(sc, func(_ *ssa.BasicBlock, _ int, in2 ssa.Instruction) {
			if r, ok := in2.(*ssa.Range); ok && r.X == ssa.Value(sc.Params[src]) {
				ranges = true
			}
			if ic, ok := in2.(*ssa.Call); ok && ir.CallName(ic) == "(net/http.Header).Add" && len(ic.Call.Args) == 3 && ic.Call.Args[0] == ssa.Value(sc.Params[dst]) {
				if _, isConst := ic.Call.Args[1].(*ssa.Const); !isConst {
					addsTo = true
				}
			}
		})
		if ranges && addsTo {
			sites = append(sites, call)
		}
	})
	if depth < 2 {
		for _, hc := range helperCallsWithReq(c, fn, reqVals) {
			inner, _ := headerLoopSites(c, hc.callee, hc.param, depth+1)
			if onAllPaths(hc.callee, inner) {
				sites = append(sites, hc.call)
			}
		}
	}
	return sites, iteratedOnly
}

type reqHelperCall struct {
	call   ssa.Instruction
	callee *ssa.Function
	param  *ssa.Parameter
}

// helperCallsWithReq: static calls in fn to library functions that receive one of the request values.
func helperCallsWithReq(c *Ctx, fn *ssa.Function, reqVals map[ssa.Value]bool) []reqHelperCall {
	var out []reqHelperCall
	ir.EachInstr(fn, func(_ *ssa.BasicBlock, _ int, in ssa.Instruction) {
		call, ok := in.(*ssa.Call)
		if !ok {
			return
		}
		sc := ir.StaticCallee(call)
		if sc == nil || !c.P.IsLib(sc) || sc == fn {
			return
		}
		for i, a := range call.Call.Args {
			if reqVals[a] && i < len(sc.Params) && isHTTPRequestPtr(sc.Params[i].Type()) {
				out = append(out, reqHelperCall{call, sc, sc.Params[i]})
			}
		}
	})
	return out
}

// onAllPaths: some site dominates every return of fn.
func onAllPaths(fn *ssa.Function, sites []ssa.Instruction) bool {
	if len(sites) == 0 {
		return false
	}
	ok := true
	ir.EachInstr(fn, func(_ *ssa.BasicBlock, _ int, in ssa.Instruction) {
		r, isRet := in.(*ssa.Return)
		if !isRet {
			return
		}
		dom := false
		for _, s := range sites {
			if flow.Dominates(s, r) {
				dom = true
			}
		}
		if !dom {
			ok = false
		}
	})
	return ok
}

func staticHeadersApplied(c *Ctx, b *builder) (bool, string) {
	sites, iteratedOnly := headerLoopSites(c, b.fn, b.req, 0)
	if len(sites) == 0 {
		if iteratedOnly {
			return false, "the configured headers are iterated but their values are not all added to this request's header (Header.Add per value; Header.Set keeps only the last value of a header configured with several)"
		}
		return false, "no loop over the transport's configured http.Header field: static headers are not added to this request"
	}
	for _, d := range b.dispatch {
		dom := false
		for _, s := range sites {
			if flow.Dominates(s, d) {
				dom = true
			}
		}
		if !dom {
			return false, "a dispatch of the request is reachable without passing the static-header loop"
		}
	}
	return true, "every dispatch is dominated by the loop adding the configured headers to this request"
}

func checkHook(c *Ctx, b *builder, appliers map[*ssa.Function]bool, hookType *types.Named) {
	bn := fname(b.fn)
	reqVals := derivedReq(b.req)
	var hooks []*ssa.Call
	ir.EachInstr(b.fn, func(_ *ssa.BasicBlock, _ int, in ssa.Instruction) {
		call, ok := in.(*ssa.Call)
		if !ok {
			return
		}
		usesReq := false
		for _, a := range call.Call.Args {
			if reqVals[a] {
				usesReq = true
			}
		}
		if !usesReq {
			return
		}
		if sc := ir.StaticCallee(call); sc != nil && appliers[sc] {
			hooks = append(hooks, call)
			return
		}
		if !call.Call.IsInvoke() && types.Identical(call.Call.Value.Type(), hookType) {
			hooks = append(hooks, call)
		}
	})
	if len(hooks) == 0 {
		c.R.Violate("R-before-request", bn, c.Pos(b.newReq.Pos()), sprintf("%s sends an HTTP request that never passes through the before-request function", bn))
		return
	}
	if len(hooks) > 1 {
		// more than one hook call site: they must be on disjoint paths
		for i := range hooks {
			for j := range hooks {
				if i != j && flow.Reaches(hooks[i], hooks[j]) {
					c.R.Violate("R-before-request", bn, c.Pos(hooks[j].Pos()), sprintf("%s can apply the before-request function twice to one request", bn))
					return
				}
			}
		}
	}
	for _, h := range hooks {
		if flow.InCycle(h.Block()) {
			c.R.Violate("R-before-request", bn, c.Pos(h.Pos()), sprintf("%s applies the before-request function inside a loop", bn))
			return
		}
	}
	// every path newReq -> dispatch passes a hook, except through the "no client" nil-check
	isHook := map[ssa.Instruction]bool{}
	for _, h := range hooks {
		isHook[h] = true
	}
	isDispatch := map[ssa.Instruction]bool{}
	for _, d := range b.dispatch {
		isDispatch[d] = true
	}
	bypass := pathToDispatchAvoiding(b.fn, b.newReq, isHook, isDispatch)
	if bypass != nil {
		c.R.Violate("R-before-request", bn, c.Pos(bypass.Pos()), sprintf("%s has a path from building the request to dispatching it (%s) that skips the before-request function", bn, c.Pos(bypass.Pos())))
		return
	}
	// error edge
	for _, h := range hooks {
		cut := false
		if refs := h.Referrers(); refs != nil {
			for _, r := range *refs {
				bin, ok := r.(*ssa.BinOp)
				if !ok || !(ir.IsNilConst(bin.X) || ir.IsNilConst(bin.Y)) {
					continue
				}
				for _, rr := range *bin.Referrers() {
					ifi, ok := rr.(*ssa.If)
					if !ok {
						continue
					}
					errSucc := 0 // err != nil → true edge
					if bin.Op == token.EQL {
						errSucc = 1
					}
					reach := flow.BlocksReachableAvoiding(ifi.Block().Succs[errSucc], nil)
					bad := false
					for _, d := range b.dispatch {
						if reach[d.Block()] {
							bad = true
						}
					}
					if !bad {
						cut = true
					}
				}
			}
		}
		if !cut {
			c.R.Violate("R-before-request", bn, c.Pos(h.Pos()), sprintf("%s does not stop when the before-request function returns an error: the request is still sent", bn))
			return
		}
		// context provenance
		ctxArg := hookCtxArg(h)
		if ctxArg != nil {
			if root := ctxRoot(ctxArg, 0); root == "background" {
				c.R.Violate("R-before-request", bn, c.Pos(h.Pos()), sprintf("%s passes a context rooted at context.Background()/TODO() to the before-request function: the calling operation's context values are lost", bn))
				return
			} else if root == "field" && ownsContextParam(h.Parent()) {
				c.R.Violate("R-before-request", bn, c.Pos(h.Pos()), sprintf("%s is called with the operation's context but hands the before-request function a context kept in the transport: the function sees the values of whichever earlier operation stored it, not those of the calling one", bn))
				return
			}
		}
	}
	c.R.Hold("R-before-request", bn, c.Pos(hooks[0].Pos()), "hook applied exactly once on every path to the dispatch, error edge cut, context derived from the builder's context")
}

// ownsContextParam: the function (or, for a closure, the function it is declared in) receives a context.Context.
func ownsContextParam(fn *ssa.Function) bool {
	for f := fn; f != nil; f = f.Parent() {
		for _, p := range f.Params {
			if ir.TypeStr(p.Type()) == "context.Context" {
				return true
			}
		}
	}
	return false
}

// dispatchWrapper: the call goes to a library function that does nothing but hand its request parameter to
// HTTPReqHandler.Handle / (*http.Client).Do and return the result (a single-block `dispatch` helper); the result is the
// name of that inner call, "" otherwise.
func dispatchWrapper(c *Ctx, call *ssa.Call) string {
	sc := ir.StaticCallee(call)
	if sc == nil || !c.P.IsLib(sc) || len(sc.Blocks) != 1 {
		return ""
	}
	name := ""
	for _, in := range sc.Blocks[0].Instrs {
		ic, ok := in.(*ssa.Call)
		if !ok {
			continue
		}
		n := ir.CallName(ic)
		if n != "(mcp.HTTPReqHandler).Handle" && n != "(*net/http.Client).Do" {
			continue
		}
		for _, a := range ic.Call.Args {
			if p, ok := a.(*ssa.Parameter); ok && isHTTPRequestPtr(p.Type()) {
				name = n
			}
		}
	}
	return name
}

func hookCtxArg(h *ssa.Call) ssa.Value {
	for _, a := range h.Call.Args {
		if ir.TypeStr(a.Type()) == "context.Context" {
			return a
		}
	}
	return nil
}

// ctxRoot classifies where a context value comes from: "param", "field", "background", "unknown".
func ctxRoot(v ssa.Value, depth int) string {
	if depth > 10 {
		return "unknown"
	}
	switch x := v.(type) {
	case *ssa.Parameter:
		return "param"
	case *ssa.FreeVar:
		return "param"
	case *ssa.Call:
		n := ir.CallName(x)
		if n == "context.Background" || n == "context.TODO" {
			return "background"
		}
		for _, a := range x.Call.Args {
			if ir.TypeStr(a.Type()) == "context.Context" {
				return ctxRoot(a, depth+1)
			}
		}
		return "unknown"
	case *ssa.Extract:
		return ctxRoot(x.Tuple, depth+1)
	case *ssa.Phi:
		res := ""
		for _, e := range x.Edges {
			r := ctxRoot(e, depth+1)
			if r == "background" {
				return r
			}
			res = r
		}
		return res
	case *ssa.UnOp:
		if _, _, ok := ir.LoadedField(x); ok {
			return "field"
		}
		if al, ok := x.X.(*ssa.Alloc); ok {
			for _, r := range *al.Referrers() {
				if st, ok := r.(*ssa.Store); ok && st.Addr == al {
					if rr := ctxRoot(st.Val, depth+1); rr == "background" {
						return rr
					}
				}
			}
			return "param"
		}
	case *ssa.MakeInterface:
		return ctxRoot(x.X, depth+1)
	case *ssa.ChangeInterface:
		return ctxRoot(x.X, depth+1)
	}
	return "unknown"
}

// pathToDispatchAvoiding searches from `from` for a dispatch reachable without executing a hook;
// the false edge of `owner != nil` checks (owner: pointer to a library struct, i.e. the client that
// carries the hook) is not followed.
func pathToDispatchAvoiding(fn *ssa.Function, from ssa.Instruction, isHook, isDispatch map[ssa.Instruction]bool) ssa.Instruction {
	type item struct {
		b *ssa.BasicBlock
		i int
	}
	l := flow.LocOf(from)
	seen := map[*ssa.BasicBlock]bool{}
	stack := []item{{l.B, l.I + 1}}
	for len(stack) > 0 {
		it := stack[len(stack)-1]
		stack = stack[:len(stack)-1]
		stopped := false
		for k := it.i; k < len(it.b.Instrs); k++ {
			in := it.b.Instrs[k]
			if isHook[in] {
				stopped = true
				break
			}
			if isDispatch[in] {
				return in
			}
		}
		if stopped {
			continue
		}
		skip := -1
		if len(it.b.Instrs) > 0 {
			if ifi, ok := it.b.Instrs[len(it.b.Instrs)-1].(*ssa.If); ok {
				if bin, ok := ifi.Cond.(*ssa.BinOp); ok && (ir.IsNilConst(bin.X) || ir.IsNilConst(bin.Y)) {
					v := bin.X
					if ir.IsNilConst(bin.X) {
						v = bin.Y
					}
					if pt, ok := v.Type().(*types.Pointer); ok {
						if n, ok := pt.Elem().(*types.Named); ok && ir.InLibrary(n) {
							if _, isField, _ := ir.LoadedField(v); isField != nil {
								if bin.Op == token.NEQ {
									skip = 1
								} else if bin.Op == token.EQL {
									skip = 0
								}
							}
						}
					}
				}
			}
		}
		for i, s := range it.b.Succs {
			if i == skip || seen[s] {
				continue
			}
			seen[s] = true
			stack = append(stack, item{s, 0})
		}
	}
	return nil
}

// appliesPath: the builder stores a value loaded from a string field of its receiver into req.URL.Path.
func appliesPath(c *Ctx, b *builder) bool {
	if b.factory != nil && appliesPathIn(c, b.factory, b.facReq, 0) {
		return true
	}
	return appliesPathIn(c, b.fn, b.req, 0)
}

// appliesPathIn: fn stores a configured (field-loaded) path into req.URL.Path, itself or through a helper given req.
func appliesPathIn(c *Ctx, fn *ssa.Function, req ssa.Value, depth int) bool {
	reqVals := derivedReq(req)
	found := false
	ir.EachInstr(fn, func(_ *ssa.BasicBlock, _ int, in ssa.Instruction) {
		st, ok := in.(*ssa.Store)
		if !ok {
			return
		}
		fa, ok := st.Addr.(*ssa.FieldAddr)
		if !ok {
			return
		}
		f, base, ok := ir.FieldOf(fa)
		if !ok || f.Name != "Path" || f.Struct == nil || ir.TypeKey(f.Struct) != "net/url.URL" {
			return
		}
		// base = *(&req.URL)
		u, ok := base.(*ssa.UnOp)
		if !ok {
			return
		}
		ufa, ok := u.X.(*ssa.FieldAddr)
		if !ok {
			return
		}
		uf, ubase, ok := ir.FieldOf(ufa)
		if !ok || uf.Name != "URL" || !reqVals[ubase] {
			return
		}
		if _, _, isField := ir.LoadedField(st.Val); isField {
			found = true
		}
	})
	if !found && depth < 2 {
		for _, hc := range helperCallsWithReq(c, fn, reqVals) {
			if appliesPathIn(c, hc.callee, hc.param, depth+1) {
				found = true
			}
		}
	}
	return found
}

func setsHeaderConst(c *Ctx, b *builder, key string) bool {
	if b.factory != nil && setsHeaderConstIn(c, b.factory, b.facReq, key, 0) {
		return true // set by the request factory
	}
	return setsHeaderConstIn(c, b.fn, b.req, key, 0)
}

func setsHeaderConstIn(c *Ctx, fn *ssa.Function, req ssa.Value, key string, depth int) bool {
	reqVals := derivedReq(req)
	found := false
	ir.EachCall(fn, func(call ssa.CallInstruction) {
		n := ir.CallName(call)
		if n != "(net/http.Header).Set" && n != "(net/http.Header).Add" {
			return
		}
		args := call.Common().Args
		if len(args) != 3 || !headerOfReq(args[0], reqVals) {
			return
		}
		if k, ok := ir.ConstStr(args[1]); ok && strings.EqualFold(k, key) {
			found = true
		}
	})
	if !found && depth < 2 {
		for _, hc := range helperCallsWithReq(c, fn, reqVals) {
			if setsHeaderConstIn(c, hc.callee, hc.param, key, depth+1) {
				found = true
			}
		}
	}
	return found
}

// ---------------------------------------------------------------- R-url-verbatim
// The address handed to http.NewRequest* is the configured URL rendered as it is: the String() of a *url.URL held in a
// member of the transport (the user's URL with its query string), or a member holding the endpoint the server
// announced. A URL rebuilt from parts (ResolveReference, JoinPath, Sprintf of host and path) silently loses what the
// rebuilding does not copy — typically the query string carrying a token or a tenant.
func c19URLVerbatim(c *Ctx, builders []*builder) {
	var judge func(fn *ssa.Function, v ssa.Value, depth int) string
	judge = func(fn *ssa.Function, v ssa.Value, depth int) string {
		v = ir.Unwrap(v)
		switch x := v.(type) {
		case *ssa.Call:
			n := ir.CallName(x)
			if n == "(*net/url.URL).String" {
				recv := x.Call.Args[0]
				if _, _, ok := ir.LoadedField(recv); ok {
					return ""
				}
				if p, ok := recv.(*ssa.Parameter); ok {
					_ = p
					return ""
				}
				if oc := originCall(recv); oc != nil {
					return "the URL is rebuilt with " + ir.CallName(oc) + " before it is rendered"
				}
				return "the URL rendered is not the configured one"
			}
			sc := ir.StaticCallee(x)
			if sc != nil && c.P.IsLib(sc) && depth < 2 {
				why := ""
				ir.EachInstr(sc, func(blk *ssa.BasicBlock, _ int, in ssa.Instruction) {
					if r, ok := in.(*ssa.Return); ok && blk != sc.Recover && len(ir.Results(r)) > 0 {
						if w := judge(sc, ir.Results(r)[0], depth+1); w != "" {
							why = w + " (in " + fname(sc) + ")"
						}
					}
				})
				return why
			}
			return "the address is computed by " + n
		case *ssa.Phi:
			for _, e := range x.Edges {
				if w := judge(fn, e, depth+1); w != "" {
					return w
				}
			}
			return ""
		case *ssa.UnOp:
			if _, _, ok := ir.LoadedField(x); ok {
				return "" // a string member holding the address
			}
		case *ssa.Parameter:
			return ""
		case *ssa.BinOp:
			return "the address is concatenated from parts"
		}
		return ""
	}
	n := 0
	for _, b := range builders {
		site, siteFn := b.newReq, b.fn
		if b.factory != nil {
			site, siteFn = b.facNew, b.factory
		}
		args := site.Call.Args
		var urlArg ssa.Value
		switch ir.CallName(site) {
		case "net/http.NewRequestWithContext":
			if len(args) >= 3 {
				urlArg = args[2]
			}
		case "net/http.NewRequest":
			if len(args) >= 2 {
				urlArg = args[1]
			}
		}
		if urlArg == nil {
			continue
		}
		n++
		why := judge(siteFn, urlArg, 0)
		c.R.Check(why == "", "R-url-verbatim", "address of the request built by "+fname(b.fn), c.Pos(b.newReq.Pos()), "the configured URL rendered verbatim",
			sprintf("%s does not send its request to the configured URL as it was given: %s — components it does not copy (the query string) are lost on every request", fname(b.fn), why))
	}
	c.R.Min("R-url-verbatim", 9)
}

// ---------------------------------------------------------------- R-path-verbatim
// "Goes to the configured URL and path": the member the request builders copy into req.URL.Path holds the path the
// user configured, as given. Every value stored into that member — and into a member it is initialised from — is a
// parameter / captured option argument, a constant, or another such member; a value computed from the configured one
// (path.Clean, TrimSuffix, concatenation) sends every request somewhere else for the inputs the computation changes.
func c19PathVerbatim(c *Ctx) {
	// members stored into URL.Path
	members := map[string]bool{}
	for _, fn := range c.P.LibFns {
		if !clientSide(c, fn) {
			continue
		}
		ir.EachInstr(fn, func(_ *ssa.BasicBlock, _ int, in ssa.Instruction) {
			st, ok := in.(*ssa.Store)
			if !ok {
				return
			}
			fa, ok := st.Addr.(*ssa.FieldAddr)
			if !ok {
				return
			}
			f, _, ok := ir.FieldOf(fa)
			if !ok || f.Name != "Path" || f.Struct == nil || ir.TypeKey(f.Struct) != "net/url.URL" {
				return
			}
			if lf, _, ok := ir.LoadedField(st.Val); ok {
				members[lf.Key()] = true
			}
		})
	}
	if len(members) == 0 {
		c.R.Break("R-path-verbatim: no member is copied into the request URL's Path")
		return
	}
	n := 0
	done := map[string]bool{}
	var visit func(key string, d int)
	visit = func(key string, d int) {
		if done[key] || d > 3 {
			return
		}
		done[key] = true
		for _, fn := range c.P.LibFns {
			ir.EachInstr(fn, func(_ *ssa.BasicBlock, _ int, in ssa.Instruction) {
				st, ok := in.(*ssa.Store)
				if !ok {
					return
				}
				fa, ok := st.Addr.(*ssa.FieldAddr)
				if !ok {
					return
				}
				f, _, ok := ir.FieldOf(fa)
				if !ok || f.Key() != key {
					return
				}
				n++
				v := unspill(st.Val)
				why := ""
				switch x := v.(type) {
				case *ssa.Parameter, *ssa.FreeVar, *ssa.Const:
				case *ssa.UnOp:
					if lf, _, ok := ir.LoadedField(x); ok {
						visit(lf.Key(), d+1)
					} else if _, isFV := x.X.(*ssa.FreeVar); !isFV {
						why = "a value that is not the configured one"
					}
				case *ssa.Call:
					why = "the result of " + ir.CallName(x)
				case *ssa.BinOp:
					why = "a concatenation"
				case *ssa.Slice:
					why = "a slice of the configured string"
				case *ssa.Phi:
					for _, e := range x.Edges {
						switch e.(type) {
						case *ssa.Call, *ssa.BinOp, *ssa.Slice:
							why = "a value computed on some path"
						}
					}
				default:
					why = "a computed value"
				}
				c.R.Check(why == "", "R-path-verbatim", sprintf("value stored into %s by %s", key, fname(fn)), c.Pos(st.Pos()),
					"the configured path as given",
					sprintf("%s stores %s into %s, the member every request builder copies into the request URL's path: for the paths that computation changes (a trailing slash, for instance) every request goes to another path than the configured one", fname(fn), why, key))
			})
		}
	}
	keys := make([]string, 0, len(members))
	for k := range members {
		keys = append(keys, k)
	}
	sort.Strings(keys)
	for _, k := range keys {
		visit(k, 0)
	}
	c.R.Min("R-path-verbatim", 2)
	if n == 0 {
		c.R.Break("R-path-verbatim: no store into the path member found")
	}
}

// ---------------------------------------------------------------- R-hook-error-fails
// "When that function returns an error nothing is sent and the operation fails with that error." The request builders
// return the before-request function's error; the clause holds only if every client function on the way up hands it
// on. For every call, in a client-side function that itself returns an error, of something from which a request
// builder is reachable: the error it returns is returned directly, or tested against nil with no path from the
// "failed" edge to a return whose error result is nil (logging it and carrying on reports success for a request that
// was never sent).
func c19HookErrorFails(c *Ctx, builders []*builder) {
	sends := map[*ssa.Function]bool{}
	for _, b := range builders {
		sends[b.fn] = true
	}
	for changed := true; changed; {
		changed = false
		for _, fn := range c.P.LibFns {
			if sends[fn] || !clientSide(c, fn) {
				continue
			}
			ir.EachCall(fn, func(call ssa.CallInstruction) {
				if _, isGo := call.(*ssa.Go); isGo {
					return
				}
				for _, cal := range ir.Callees(c.G, call) {
					if sends[cal] && !sends[fn] {
						sends[fn] = true
						changed = true
					}
				}
			})
		}
	}
	isErr := func(t types.Type) bool { return ir.TypeStr(t) == "error" }
	n := 0
	for _, fn := range sortedFuncs(sends) {
		res := fn.Signature.Results()
		if res.Len() == 0 || !isErr(res.At(res.Len()-1).Type()) {
			continue // a background function: it has nobody to fail for
		}
		ir.EachInstr(fn, func(_ *ssa.BasicBlock, _ int, in ssa.Instruction) {
			call, ok := in.(*ssa.Call)
			if !ok {
				return
			}
			reaches := false
			for _, cal := range ir.Callees(c.G, call) {
				if sends[cal] && cal != fn {
					reaches = true
				}
			}
			if !reaches {
				return
			}
			// the error result of the call
			var errv ssa.Value
			switch t := call.Type().(type) {
			case *types.Tuple:
				if t.Len() > 0 && isErr(t.At(t.Len()-1).Type()) && call.Referrers() != nil {
					for _, r := range *call.Referrers() {
						if ex, ok := r.(*ssa.Extract); ok && ex.Index == t.Len()-1 {
							errv = ex
						}
					}
					if errv == nil {
						n++
						c.R.Violate("R-hook-error-fails", sprintf("error of the send in %s #%d", fname(fn), n), c.Pos(call.Pos()),
							sprintf("%s discards the error returned by %s: a failed before-request function (nothing was sent) does not fail the operation", fname(fn), ir.CallName(call)))
						return
					}
				}
			default:
				if isErr(call.Type()) {
					errv = call
				}
			}
			if errv == nil {
				return
			}
			n++
			construct := sprintf("error of the send in %s #%d", fname(fn), n)
			// returned directly / stored for a deferred or later return?
			bad := ""
			tested := false
			var visitUse func(v ssa.Value, d int)
			seen := map[ssa.Value]bool{}
			visitUse = func(v ssa.Value, d int) {
				if v.Referrers() == nil || d > 4 || seen[v] {
					return
				}
				seen[v] = true
				for _, r := range *v.Referrers() {
					switch y := r.(type) {
					case *ssa.Return:
						tested = true
					case *ssa.Store:
						tested = true // kept in a variable (named result, lastErr): judged where that is used
					case *ssa.Phi:
						visitUse(y, d+1)
					case *ssa.BinOp:
						ev, op, ok := nilCompare(y)
						if !ok || ev != v || y.Referrers() == nil {
							continue
						}
						for _, rr := range *y.Referrers() {
							ifi, ok := rr.(*ssa.If)
							if !ok {
								continue
							}
							tested = true
							failed := ifi.Block().Succs[0]
							if op == token.EQL {
								failed = ifi.Block().Succs[1]
							}
							for b := range flow.BlocksReachableAvoiding(failed, nil) {
								ret, ok := b.Instrs[len(b.Instrs)-1].(*ssa.Return)
								if !ok || b == fn.Recover {
									continue
								}
								rs := ir.Results(ret)
								if len(rs) > 0 && ir.IsNilConst(rs[len(rs)-1]) {
									// reachable from the failed edge: is this return also only reachable through it
									// after a retry/fallback that succeeded? — a later send on the way counts as such
									again := false
									ir.EachInstr(fn, func(_ *ssa.BasicBlock, _ int, in2 ssa.Instruction) {
										if c2, ok := in2.(*ssa.Call); ok && flow.Reaches(ifi, c2) && flow.Reaches(c2, ret) { // (c2 may be the call itself: a retry loop)
											for _, cal := range ir.Callees(c.G, c2) {
												if sends[cal] {
													again = true
												}
											}
										}
									})
									if !again {
										bad = sprintf("the failed edge reaches the successful return at %s", c.Pos(ret.Pos()))
									}
								}
							}
						}
					}
				}
			}
			visitUse(errv, 0)
			if !tested {
				bad = "the error is neither returned nor tested"
			}
			c.R.Check(bad == "", "R-hook-error-fails", construct, c.Pos(call.Pos()),
				"the error is returned, or every path from its non-nil edge ends in a failure",
				sprintf("%s calls %s, which sends a request and returns the before-request function's error, but does not fail with it (%s): the operation reports success although nothing was sent", fname(fn), ir.CallName(call), bad))
		})
	}
	c.R.Min("R-hook-error-fails", 10)
}

// ---------------------------------------------------------------- R-handler-factory
// "Through the configured request handler": besides an explicit handler option, the configuration is the replaceable
// package-level factory (a variable of function type returning the handler interface) called with the configured
// service name and options. Whatever library code stores into a member of the handler interface type is therefore an
// explicitly configured handler (a parameter / captured option argument / another such member) or the result of a call
// THROUGH that variable — never the product of a concrete constructor called directly, which makes the "unset" case
// disappear and the factory (and WithServiceName / WithHTTPReqHandlerOption) dead for that transport.
func c19HandlerFactory(c *Ctx) {
	hT := c.P.RootNamed("HTTPReqHandler")
	if hT == nil {
		c.R.Break("R-handler-factory: HTTPReqHandler interface not found")
		return
	}
	isFactoryCall := func(call *ssa.Call) bool {
		if call.Call.IsInvoke() || ir.StaticCallee(call) != nil {
			return false
		}
		u, ok := call.Call.Value.(*ssa.UnOp)
		if !ok {
			return false
		}
		g, ok := u.X.(*ssa.Global)
		return ok && g.Pkg != nil && strings.HasPrefix(g.Pkg.Pkg.Path(), ir.RootPath)
	}
	n, nFactory := 0, 0
	for _, fn := range c.P.LibFns {
		ir.EachInstr(fn, func(_ *ssa.BasicBlock, _ int, in ssa.Instruction) {
			st, ok := in.(*ssa.Store)
			if !ok {
				return
			}
			fa, ok := st.Addr.(*ssa.FieldAddr)
			if !ok {
				return
			}
			f, _, ok := ir.FieldOf(fa)
			if !ok || !types.Identical(f.Type, hT) {
				return
			}
			n++
			why := ""
			var judge func(v ssa.Value, d int)
			judge = func(v ssa.Value, d int) {
				if d > 4 || why != "" {
					return
				}
				switch x := unspill(v).(type) {
				case *ssa.Parameter, *ssa.FreeVar:
				case *ssa.Const:
				case *ssa.Phi:
					for _, e := range x.Edges {
						judge(e, d+1)
					}
				case *ssa.UnOp:
					if _, _, isField := ir.LoadedField(x); !isField {
						if _, isFV := x.X.(*ssa.FreeVar); !isFV {
							why = "a value of unknown origin"
						}
					}
				case *ssa.Call:
					if isFactoryCall(x) {
						nFactory++
						return
					}
					// a helper whose every result is judged the same way (newConfiguredHTTPReqHandler → factory call)
					if sc := ir.StaticCallee(x); sc != nil && c.P.IsLib(sc) && sc.Blocks != nil && d < 3 {
						any := false
						for _, b := range sc.Blocks {
							if ret, ok := b.Instrs[len(b.Instrs)-1].(*ssa.Return); ok && b != sc.Recover && len(ret.Results) > 0 {
								any = true
								judge(ir.Results(ret)[0], d+1)
							}
						}
						if any && why == "" {
							return
						}
						if why != "" {
							why = "the result of " + ir.CallName(x) + ", which returns " + why
							return
						}
					}
					why = "the result of " + ir.CallName(x) + ", called directly"
				case *ssa.MakeInterface:
					why = "a value of the concrete type " + ir.TypeStr(x.X.Type())
				default:
					why = "a computed value"
				}
			}
			judge(st.Val, 0)
			c.R.Check(why == "", "R-handler-factory", sprintf("handler stored into %s by %s", f.Key(), fname(fn)), c.Pos(st.Pos()),
				"an explicitly configured handler or the product of the replaceable factory",
				sprintf("%s stores %s into %s: the member then is never unset, the replaceable factory NewHTTPReqHandler (with the configured service name and options) is not consulted for it, and the requests of that transport do not go through the configured request handler", fname(fn), why, f.Key()))
		})
	}
	if n < 3 || nFactory < 1 {
		c.R.Break("R-handler-factory: %d stores into handler members, %d of them factory calls (expected at least 3 and 2)", n, nFactory)
	}
}


// factoryCompletes: inside the request factory of b, on every path from the creation of the request to a return that
// hands the request back, (hdr) the static-header loop and (hook) exactly one application of the before-request
// function have been passed.
func factoryCompletes(c *Ctx, b *builder, appliers map[*ssa.Function]bool, hookType *types.Named) (hdr, hook bool) {
	f := b.factory
	reqVals := derivedReq(b.facReq)
	var success []*ssa.Return
	ir.EachInstr(f, func(blk *ssa.BasicBlock, _ int, in ssa.Instruction) {
		ret, ok := in.(*ssa.Return)
		if !ok || blk == f.Recover {
			return
		}
		for _, rv := range ir.Results(ret) {
			if reqVals[rv] {
				success = append(success, ret)
			}
		}
	})
	if len(success) == 0 {
		return false, false
	}
	sites, _ := headerLoopSites(c, f, b.facReq, 0)
	hdr = len(sites) > 0
	for _, r := range success {
		dom := false
		for _, s := range sites {
			if flow.Dominates(s, r) {
				dom = true
			}
		}
		if !dom {
			hdr = false
		}
	}
	var hooks []*ssa.Call
	ir.EachInstr(f, func(_ *ssa.BasicBlock, _ int, in ssa.Instruction) {
		call, ok := in.(*ssa.Call)
		if !ok {
			return
		}
		uses := false
		for _, a := range call.Call.Args {
			if reqVals[a] {
				uses = true
			}
		}
		if !uses {
			return
		}
		if sc := ir.StaticCallee(call); sc != nil && appliers[sc] {
			hooks = append(hooks, call)
		} else if !call.Call.IsInvoke() && types.Identical(call.Call.Value.Type(), hookType) {
			hooks = append(hooks, call)
		}
	})
	hook = len(hooks) > 0
	for i := range hooks {
		if flow.InCycle(hooks[i].Block()) {
			hook = false
		}
		for j := range hooks {
			if i != j && flow.Reaches(hooks[i], hooks[j]) {
				hook = false
			}
		}
	}
	isHook := map[ssa.Instruction]bool{}
	for _, h := range hooks {
		isHook[h] = true
	}
	for _, r := range success {
		// a success return reachable from the creation without passing a hook (other than over the "no client" edge)?
		stop := map[ssa.Instruction]bool{r: true}
		if bypass := pathToDispatchAvoiding(f, b.facNew, isHook, stop); bypass != nil {
			hook = false
		}
	}
	return hdr, hook
}
