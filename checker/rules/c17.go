package rules

import (
	"go/constant"
	"go/token"
	"go/types"
	"regexp"
	"sort"
	"strconv"
	"strings"

	"golang.org/x/tools/go/ssa"

	"verif/checker/flow"
	"verif/checker/ir"
)

// C17 — retry: bounded attempts, only transient failures, capped backoff, prompt cancel.
// Anchors: the exported API of internal/retry (Execute, IsRetryableError, Config.Validate and the
// documented range constants), resolved through the type-checked package.
//
//	R-no-transport-replay no request is marked replayable for net/http (Idempotency-Key)
//	(R-body-taint accepts a typed status error that the classifier judges by its code alone)
func init() { Registry["C17"] = checkC17 }

const retryPkg = ir.RootPath + "/internal/retry"

func checkC17(c *Ctx) {
	c.R.Explanation = "Static check of the retry executor's loop structure (iteration count = MaxRetries+1 derived symbolically from the induction variable, single operation call in the loop, " +
		"back edge reachable only through 'error != nil' and 'classified transient'), of its waits (select with ctx.Done, no Sleep, duration capped by MaxBackoff, exponent = attempt-1), " +
		"of Validate's clamps against the documented ranges, of the retryable status table evaluated from the initialiser, and of how transports build the error text the classifier reads."
	c.R.NotDecided = "elapsed-time bounds; behaviour of time.After; whether a given network error string is produced by the OS"
	c.R.Assumptions = []string{"loops are recognised in the canonical induction-variable form go/ssa produces for `for i := a; i <op> b; i++`; any other shape is reported as undecided, never as holding"}
	exec := c.P.Func(retryPkg, "Execute")
	classify := c.P.Func(retryPkg, "IsRetryableError")
	cfgT := c.P.Named(retryPkg, "Config")
	validate := c.P.Method(cfgT, "Validate")
	if exec == nil || classify == nil || validate == nil {
		c.R.Break("anchor not found: retry.Execute / retry.IsRetryableError / retry.Config.Validate")
		return
	}
	c17Loop(c, exec, classify)
	c17Waits(c, exec)
	c17CheckBeforeAttempt(c, exec)
	c17Clamp(c, validate)
	c17Table(c)
	c17TextTable(c, classify)
	c17ConfigImmutable(c)
	c17Options(c, validate)
	c17ErrorText(c, exec)
	c17NoTransportReplay(c)
	c17TypedErrorsWrapped(c, classify)
	c17NoNestedRetry(c, exec)
	c17OneSendPerAttempt(c, exec)
	c17AttemptsUnderPolicy(c, exec)
	c17AttemptCtx(c, exec)
}

// fieldLoadNamed: v is a load of field `name` (of any struct).
func fieldLoadNamed(v ssa.Value, name string) bool {
	f, _, ok := ir.LoadedField(v)
	return ok && f.Name == name
}

// affine decomposes v as base + k where base is a non-constant value (through ADD/SUB with integer constants).
func affine(v ssa.Value) (base ssa.Value, k int64) {
	for i := 0; i < 6; i++ {
		bin, ok := v.(*ssa.BinOp)
		if !ok {
			break
		}
		if bin.Op == token.ADD {
			if cst, ok := ir.ConstInt(bin.Y); ok {
				k += cst
				v = bin.X
				continue
			}
			if cst, ok := ir.ConstInt(bin.X); ok {
				k += cst
				v = bin.Y
				continue
			}
		}
		if bin.Op == token.SUB {
			if cst, ok := ir.ConstInt(bin.Y); ok {
				k -= cst
				v = bin.X
				continue
			}
		}
		break
	}
	return v, k
}

type indVar struct {
	phi   *ssa.Phi
	init  int64
	bound ssa.Value // the value compared against
	op    token.Token
	ifi   *ssa.If
	body  int // successor index of ifi that continues the loop
}

// findIndVars finds `phi = [const, phi+1]` with a loop test on phi.
func findIndVars(fn *ssa.Function) []indVar {
	var out []indVar
	ir.EachInstr(fn, func(_ *ssa.BasicBlock, _ int, in ssa.Instruction) {
		phi, ok := in.(*ssa.Phi)
		if !ok || len(phi.Edges) != 2 {
			return
		}
		var init int64
		haveInit, haveStep := false, false
		for _, e := range phi.Edges {
			if cst, ok := ir.ConstInt(e); ok {
				init, haveInit = cst, true
				continue
			}
			if bin, ok := e.(*ssa.BinOp); ok && bin.Op == token.ADD && bin.X == phi {
				if one, ok := ir.ConstInt(bin.Y); ok && one == 1 {
					haveStep = true
				}
			}
		}
		if !haveInit || !haveStep {
			return
		}
		for _, r := range *phi.Referrers() {
			bin, ok := r.(*ssa.BinOp)
			if !ok || bin.X != phi {
				continue
			}
			if bin.Op != token.LEQ && bin.Op != token.LSS {
				continue
			}
			for _, rr := range *bin.Referrers() {
				if ifi, ok := rr.(*ssa.If); ok && ifi.Block() == phi.Block() {
					out = append(out, indVar{phi: phi, init: init, bound: bin.Y, op: bin.Op, ifi: ifi, body: 0})
				}
			}
		}
	})
	return out
}

func c17Loop(c *Ctx, exec, classify *ssa.Function) {
	// operation = the func() error parameter
	var op *ssa.Parameter
	for _, p := range exec.Params {
		if sig, ok := p.Type().Underlying().(*types.Signature); ok && sig.Params().Len() == 0 && sig.Results().Len() == 1 {
			op = p
		}
	}
	if op == nil {
		c.R.Break("retry.Execute has no func() error parameter")
		return
	}
	var opCalls []*ssa.Call
	ir.EachInstr(exec, func(_ *ssa.BasicBlock, _ int, in ssa.Instruction) {
		if call, ok := in.(*ssa.Call); ok && call.Call.Value == op {
			opCalls = append(opCalls, call)
		}
	})
	var inLoop []*ssa.Call
	for _, oc := range opCalls {
		if flow.InCycle(oc.Block()) {
			inLoop = append(inLoop, oc)
		} else {
			// fast path: its result must be returned directly
			direct := false
			for _, r := range *oc.Referrers() {
				if ret, ok := r.(*ssa.Return); ok && len(ir.Results(ret)) == 1 && ir.Results(ret)[0] == oc {
					direct = true
				}
			}
			c.R.Check(direct, "R-attempt-bound", "fast-path operation call", c.Pos(oc.Pos()), "no-retry path calls the operation once and returns its result",
				"an operation call outside the retry loop does not return its result directly: the operation may run more often than MaxRetries+1")
		}
	}
	if len(inLoop) != 1 {
		c.R.Violate("R-attempt-bound", "operation calls in loop", c.Pos(exec.Pos()), sprintf("the retry loop calls the operation at %d sites; exactly one is required", len(inLoop)))
		return
	}
	oc := inLoop[0]
	// the loop controlling the operation call: an induction variable whose header dominates the call
	var iv *indVar
	for _, v := range findIndVars(exec) {
		v := v
		if v.phi.Block().Dominates(oc.Block()) && flow.Reaches(oc, v.phi) {
			if base, _ := affine(v.bound); fieldLoadNamed(base, "MaxRetries") {
				iv = &v
			}
		}
	}
	if iv == nil {
		c.R.Add(reportUndecided("R-attempt-bound", "attempt loop", c.Pos(oc.Pos()), "no induction variable bounded by MaxRetries+k controls the operation call"))
		return
	}
	_, k := affine(iv.bound)
	iters := k - iv.init // for '<'
	if iv.op == token.LEQ {
		iters++
	}
	c.R.Check(iters == 1, "R-attempt-bound", "attempt loop iterations", c.Pos(oc.Pos()),
		"the loop runs MaxRetries+1 times",
		sprintf("the retry loop runs MaxRetries%+d times (induction variable from %d, test %s MaxRetries%+d): the operation is attempted a wrong number of times", iters, iv.init, iv.op, k))
	// the operation call executes once per iteration: its block is not in a nested cycle that excludes the header
	inner := false
	{
		// a cycle through oc.Block() that avoids the loop header
		avoid := map[*ssa.BasicBlock]bool{iv.phi.Block(): true}
		for _, s := range oc.Block().Succs {
			if flow.BlocksReachableAvoiding(s, avoid)[oc.Block()] {
				inner = true
			}
		}
	}
	c.R.Check(!inner, "R-attempt-bound", "one operation call per iteration", c.Pos(oc.Pos()), "the call is not inside a nested loop", "the operation call sits in a nested loop: several attempts per counted iteration")

	// ---- R-retry-edge
	header := iv.phi.Block()
	reachHeaderWithout := func(cut *ssa.BasicBlock, succ int) bool {
		seen := map[*ssa.BasicBlock]bool{}
		var stack []*ssa.BasicBlock
		push := func(from *ssa.BasicBlock) {
			for i, s := range from.Succs {
				if from == cut && i == succ {
					continue
				}
				if !seen[s] {
					seen[s] = true
					stack = append(stack, s)
				}
			}
		}
		push(oc.Block())
		for len(stack) > 0 {
			b := stack[len(stack)-1]
			stack = stack[:len(stack)-1]
			if b == header {
				return true
			}
			push(b)
		}
		return false
	}
	// If on err (result of the operation)
	var nilIf *ssa.If
	nilErrSucc := 0
	for _, b := range exec.Blocks {
		if len(b.Instrs) == 0 {
			continue
		}
		ifi, ok := b.Instrs[len(b.Instrs)-1].(*ssa.If)
		if !ok {
			continue
		}
		if v, opTok, ok := nilCompare(ifi.Cond); ok && valueDependsOn(v, oc, 0) {
			nilIf = ifi
			nilErrSucc = 1 // err == nil: error edge is the false successor
			if opTok == token.NEQ {
				nilErrSucc = 0
			}
		}
	}
	// the tests may be folded into a predicate helper: `if isFinal(err) { return err }` with isFinal(err) = err == nil ||
	// !IsRetryableError(err). The helper's result value that implies "err != nil and classified transient" plays both roles.
	var predIf *ssa.If
	predSucc := 0
	for _, blk := range exec.Blocks {
		if len(blk.Instrs) == 0 {
			continue
		}
		ifi, ok := blk.Instrs[len(blk.Instrs)-1].(*ssa.If)
		if !ok {
			continue
		}
		hc, ok := ifi.Cond.(*ssa.Call)
		if !ok {
			continue
		}
		sc := ir.StaticCallee(hc)
		if sc == nil || !c.P.IsLib(sc) || sc == classify {
			continue
		}
		for i, a := range hc.Call.Args {
			if i < len(sc.Params) && valueDependsOn(a, oc, 0) {
				for val, f := range errPredicateFacts(sc, sc.Params[i], classify) {
					if f.nonNil && f.transient {
						predIf = ifi
						predSucc = 1
						if val {
							predSucc = 0
						}
					}
				}
			}
		}
	}
	if nilIf == nil && predIf != nil {
		nilIf, nilErrSucc = predIf, predSucc
	}
	if nilIf == nil {
		c.R.Violate("R-retry-edge", "success test", c.Pos(oc.Pos()), "the operation's error is not tested against nil before the next attempt")
	} else {
		c.R.Check(!reachHeaderWithout(nilIf.Block(), nilErrSucc), "R-retry-edge", "retry only after a failure", ipos(c, nilIf),
			"the loop header is reachable from the operation call only through the 'error != nil' edge",
			"the retry loop can start another attempt after the operation succeeded (the back edge is reachable without passing the 'error != nil' edge)")
	}
	var clsIf *ssa.If
	retrySucc := 0
	for _, b := range exec.Blocks {
		if len(b.Instrs) == 0 {
			continue
		}
		ifi, ok := b.Instrs[len(b.Instrs)-1].(*ssa.If)
		if !ok {
			continue
		}
		cond := ifi.Cond
		neg := false
		if u, ok := cond.(*ssa.UnOp); ok && u.Op == token.NOT {
			cond, neg = u.X, true
		}
		if call, ok := cond.(*ssa.Call); ok && ir.StaticCallee(call) == classify {
			clsIf = ifi
			retrySucc = 0
			if neg {
				retrySucc = 1
			}
		}
	}
	if clsIf == nil && predIf != nil {
		clsIf, retrySucc = predIf, predSucc
	}
	if clsIf == nil {
		c.R.Violate("R-retry-edge", "transient classification", c.Pos(oc.Pos()), "the retry loop never consults IsRetryableError: every failure is retried")
	} else {
		c.R.Check(!reachHeaderWithout(clsIf.Block(), retrySucc), "R-retry-edge", "retry only transient failures", ipos(c, clsIf),
			"the loop header is reachable from the operation call only through the 'classified transient' edge",
			"the retry loop can start another attempt after a failure that IsRetryableError did not classify as transient")
	}
	c.R.Min("R-attempt-bound", 3)
	c.R.Min("R-retry-edge", 2)
}

func c17Waits(c *Ctx, exec *ssa.Function) {
	var ctxParam *ssa.Parameter
	for _, p := range exec.Params {
		if ir.TypeStr(p.Type()) == "context.Context" {
			ctxParam = p
		}
	}
	reach := c.ReachSync(exec)
	for fn := range reach {
		ir.EachCall(fn, func(call ssa.CallInstruction) {
			if ir.CallName(call) == "time.Sleep" {
				c.R.Violate("R-cancel", "time.Sleep in "+fname(fn), c.Pos(call.Pos()), "the retry executor waits with time.Sleep: cancelling the caller's context does not end the wait")
			}
		})
	}
	// the waits of the executor: its own selects, and those of helpers it hands its context to (wait(ctx, d),
	// cancelled(ctx)); in a helper the context and the duration are parameters, mapped back to the call's arguments
	type waitSite struct {
		sel    *ssa.Select
		ctx    ssa.Value                 // the value that is the caller's context inside the site's function
		mapArg func(ssa.Value) ssa.Value // parameter of the helper -> argument in Execute
	}
	var sites []waitSite
	ir.EachInstr(exec, func(_ *ssa.BasicBlock, _ int, in ssa.Instruction) {
		switch x := in.(type) {
		case *ssa.Select:
			sites = append(sites, waitSite{x, ctxParam, func(v ssa.Value) ssa.Value { return v }})
		case *ssa.Call:
			sc := ir.StaticCallee(x)
			if sc == nil || !c.P.IsLib(sc) {
				return
			}
			var hctx ssa.Value
			for i, a := range x.Call.Args {
				if a == ssa.Value(ctxParam) && i < len(sc.Params) {
					hctx = sc.Params[i]
				}
			}
			if hctx == nil {
				return
			}
			call := x
			ir.EachInstr(sc, func(_ *ssa.BasicBlock, _ int, in2 ssa.Instruction) {
				if sel, ok := in2.(*ssa.Select); ok {
					sites = append(sites, waitSite{sel, hctx, func(v ssa.Value) ssa.Value {
						for i, p := range sc.Params {
							if v == ssa.Value(p) && i < len(call.Call.Args) {
								return call.Call.Args[i]
							}
						}
						return v
					}})
				}
			})
		}
	})
	nSel := 0
	for _, ws := range sites {
		sel := ws.sel
		nSel++
		construct := sprintf("select #%d in Execute", nSel)
		hasDone, timer := false, ssa.Value(nil)
		for _, st := range sel.States {
			if oc := originCall(st.Chan); oc != nil {
				switch ir.CallName(oc) {
				case "(context.Context).Done":
					if oc.Call.Value == ws.ctx {
						hasDone = true
					}
				case "time.After":
					timer = ws.mapArg(oc.Call.Args[0])
				}
				continue
			}
			// <-t.C of a *time.Timer: the timer has to be made for this wait (time.NewTimer(d)); a timer taken from a
			// pool, a field or a global may still carry the tick of an earlier, abandoned wait, and the wait is then not d
			if u, ok := st.Chan.(*ssa.UnOp); ok && u.Op == token.MUL {
				if fa, ok := u.X.(*ssa.FieldAddr); ok && ir.TypeStr(fa.X.Type()) == "*time.Timer" {
					if nc, ok := fa.X.(*ssa.Call); ok && ir.CallName(nc) == "time.NewTimer" {
						timer = ws.mapArg(nc.Call.Args[0])
					} else {
						c.R.Violate("R-cap", construct+": timer made for this wait", c.Pos(sel.Pos()),
							"the wait receives from a *time.Timer that is not the result of time.NewTimer in this function (recycled or shared): a tick left by an earlier wait ends this one at once, so the k-th wait is not InitialBackoff x Factor^(k-1)")
					}
				}
			}
		}
		c.R.Check(hasDone, "R-cancel", construct+": ctx.Done arm", c.Pos(sel.Pos()), "the wait has an arm on the caller's ctx.Done()", "a wait of the retry executor has no arm on the caller's ctx.Done(): cancellation is not prompt")
		if sel.Blocking && timer != nil {
			// the duration may be computed by a helper: continue in the helper with its returned value, remembering
			// which parameter carries the attempt number (and with what offset)
			attemptOf := func(v ssa.Value) (bool, int64) {
				b, k := affine(v)
				_, isPhi := b.(*ssa.Phi)
				return isPhi, k
			}
			inFn := exec
			if hc, ok := timer.(*ssa.Call); ok {
				if sc := ir.StaticCallee(hc); sc != nil && c.P.IsLib(sc) {
					var ret *ssa.Return
					nRet := 0
					ir.EachInstr(sc, func(_ *ssa.BasicBlock, _ int, in ssa.Instruction) {
						if r, ok := in.(*ssa.Return); ok {
							ret = r
							nRet++
						}
					})
					if nRet == 1 && len(ir.Results(ret)) == 1 {
						params := map[ssa.Value]int64{}
						for i, a := range hc.Call.Args {
							if isA, k := attemptOf(a); isA && i < len(sc.Params) {
								params[sc.Params[i]] = k
							}
						}
						attemptOf = func(v ssa.Value) (bool, int64) {
							b, k := affine(v)
							k0, ok := params[b]
							return ok, k + k0
						}
						timer = ir.Results(ret)[0]
						inFn = sc
					}
				}
			}
			ok, why := cappedBy(timer, "MaxBackoff")
			c.R.Check(ok, "R-cap", construct+": wait duration", c.Pos(sel.Pos()), why, "the backoff handed to time.After is not capped by MaxBackoff: "+why)
			ok2, why2 := exponentOK(inFn, timer, attemptOf)
			if why2 == "undecided" {
				c.R.Add(reportUndecided("R-cap", construct+": exponent", c.Pos(sel.Pos()), "the backoff computation has a shape this rule does not recognise"))
			} else {
				c.R.Check(ok2, "R-cap", construct+": exponent", c.Pos(sel.Pos()), why2, "the k-th wait is not InitialBackoff x Factor^(k-1): "+why2)
			}
		}
	}
	// the ctx.Done arm returns ctx.Err()
	retErr := false
	returnsCtxErr := func(fn *ssa.Function, ctx ssa.Value) bool {
		found := false
		ir.EachInstr(fn, func(_ *ssa.BasicBlock, _ int, in ssa.Instruction) {
			if r, ok := in.(*ssa.Return); ok && len(ir.Results(r)) == 1 {
				if oc := originCall(ir.Results(r)[0]); oc != nil && ir.CallName(oc) == "(context.Context).Err" && oc.Call.Value == ctx {
					found = true
				}
			}
		})
		return found
	}
	if returnsCtxErr(exec, ctxParam) {
		retErr = true
	}
	// ... or Execute returns what a helper returned that itself returns its context's error
	ir.EachInstr(exec, func(_ *ssa.BasicBlock, _ int, in ssa.Instruction) {
		r, ok := in.(*ssa.Return)
		if !ok || len(ir.Results(r)) != 1 {
			return
		}
		hc := originCall(ir.Results(r)[0])
		if hc == nil {
			return
		}
		sc := ir.StaticCallee(hc)
		if sc == nil || !c.P.IsLib(sc) {
			return
		}
		for i, a := range hc.Call.Args {
			if a == ssa.Value(ctxParam) && i < len(sc.Params) && returnsCtxErr(sc, sc.Params[i]) {
				retErr = true
			}
		}
	})
	c.R.Check(retErr, "R-cancel", "cancel returns ctx.Err()", c.Pos(exec.Pos()), "a cancelled sequence returns the context's error", "no return of ctx.Err(): a cancelled retry sequence does not end with the context's error")
	c.R.Min("R-cancel", 3)
	c.R.Min("R-cap", 2)
}

// cappedBy: v is `phi(x, load F)` where the F edge is taken exactly when x > F.
func cappedBy(v ssa.Value, field string) (bool, string) {
	phi, ok := v.(*ssa.Phi)
	if !ok || len(phi.Edges) != 2 {
		return false, "the duration is not the result of an 'if d > MaxBackoff { d = MaxBackoff }' clamp"
	}
	for i, e := range phi.Edges {
		if !fieldLoadNamed(e, field) {
			continue
		}
		other := phi.Edges[1-i]
		pred := phi.Block().Preds[i] // block that assigns the cap
		// pred must be reached only via the true edge of (other > cap)
		for _, g := range flow.Guards(phi.Parent(), pred) {
			bin, ok := g.If.Cond.(*ssa.BinOp)
			if !ok {
				continue
			}
			gt := (bin.Op == token.GTR && bin.X == other && fieldLoadNamed(bin.Y, field)) || (bin.Op == token.LSS && bin.Y == other && fieldLoadNamed(bin.X, field))
			ge := (bin.Op == token.GEQ && bin.X == other && fieldLoadNamed(bin.Y, field)) || (bin.Op == token.LEQ && bin.Y == other && fieldLoadNamed(bin.X, field))
			if (gt || ge) && g.Branch {
				return true, "duration = min(computed, MaxBackoff)"
			}
		}
		return false, "the MaxBackoff assignment is not controlled by 'computed > MaxBackoff'"
	}
	return false, "MaxBackoff does not flow into the wait duration"
}

// exponentOK: the uncapped duration is Duration(float64(InitialBackoff) * m) where m is the product of
// (attempt-1) factors BackoffFactor.
func exponentOK(exec *ssa.Function, timer ssa.Value, attemptOf func(ssa.Value) (bool, int64)) (bool, string) {
	phi, ok := timer.(*ssa.Phi)
	if !ok {
		return false, "undecided"
	}
	var raw ssa.Value
	for _, e := range phi.Edges {
		if !fieldLoadNamed(e, "MaxBackoff") {
			raw = e
		}
	}
	if raw == nil {
		return false, "undecided"
	}
	conv, ok := raw.(*ssa.Convert)
	if !ok {
		return false, "undecided"
	}
	mul, ok := conv.X.(*ssa.BinOp)
	if !ok || mul.Op != token.MUL {
		return false, "undecided"
	}
	var mult ssa.Value
	isInit := func(v ssa.Value) bool {
		if cv, ok := v.(*ssa.Convert); ok {
			return fieldLoadNamed(cv.X, "InitialBackoff")
		}
		return false
	}
	switch {
	case isInit(mul.X):
		mult = mul.Y
	case isInit(mul.Y):
		mult = mul.X
	default:
		return false, "the base of the backoff is not InitialBackoff"
	}
	// math.Pow(Factor, float64(attempt-1))
	if call, ok := mult.(*ssa.Call); ok && ir.CallName(call) == "math.Pow" {
		if !fieldLoadNamed(call.Call.Args[0], "BackoffFactor") {
			return false, "the base of the power is not BackoffFactor"
		}
		e := call.Call.Args[1]
		if cv, ok := e.(*ssa.Convert); ok {
			e = cv.X
		}
		isA, k := attemptOf(e)
		if isA && k == -1 {
			return true, "Factor^(attempt-1) via math.Pow"
		}
		return false, sprintf("the exponent is attempt%+d, not attempt-1", k)
	}
	// multiplier loop: mphi = [1.0, mphi*Factor], guarded by inner induction variable
	mphi, ok := mult.(*ssa.Phi)
	if !ok {
		return false, "undecided"
	}
	okInit, okStep := false, false
	for _, e := range mphi.Edges {
		if cst, ok := e.(*ssa.Const); ok && cst.Value != nil {
			if f, _ := constant.Float64Val(constant.ToFloat(cst.Value)); f == 1 {
				okInit = true
			}
			continue
		}
		if bin, ok := e.(*ssa.BinOp); ok && bin.Op == token.MUL && (bin.X == mphi && fieldLoadNamed(bin.Y, "BackoffFactor") || bin.Y == mphi && fieldLoadNamed(bin.X, "BackoffFactor")) {
			okStep = true
		}
	}
	if !okInit || !okStep {
		return false, "the multiplier is not 1 x BackoffFactor x … x BackoffFactor"
	}
	for _, v := range findIndVars(exec) {
		if v.phi.Block() != mphi.Block() {
			continue
		}
		isA, k := attemptOf(v.bound)
		if !isA {
			continue
		}
		iters := k - v.init
		if v.op == token.LEQ {
			iters++
		}
		// iterations = attempt + iters; required attempt - 1
		if iters == -1 {
			return true, "multiplier loop runs attempt-1 times"
		}
		return false, sprintf("the multiplier loop runs attempt%+d times, not attempt-1", iters)
	}
	return false, "undecided"
}

// ---------------------------------------------------------------- R-clamp
func c17Clamp(c *Ctx, validate *ssa.Function) {
	pk := c.P.ByPath[retryPkg]
	constVal := func(name string) (constant.Value, bool) {
		k, ok := pk.Types.Scope().Lookup(name).(*types.Const)
		if !ok {
			return nil, false
		}
		return k.Val(), true
	}
	want := map[string]string{
		"MinMaxRetries": "0", "MaxMaxRetries": "10",
		"MinInitialBackoff": "1000000", "MaxInitialBackoff": "30000000000",
		"MinBackoffFactor": "1", "MaxBackoffFactor": "10",
		"MaxMaxBackoff": "300000000000",
	}
	var names []string
	for n := range want {
		names = append(names, n)
	}
	sort.Strings(names)
	for _, n := range names {
		v, ok := constVal(n)
		if !ok {
			c.R.Break("documented range constant retry.%s not found", n)
			continue
		}
		got := v.ExactString()
		if f, ok := constant.Float64Val(constant.ToFloat(v)); ok && (n == "MinBackoffFactor" || n == "MaxBackoffFactor") {
			got = strings.TrimSuffix(strings.TrimSuffix(sprintf("%g", f), ".0"), ".")
		}
		c.R.Check(got == want[n], "R-clamp", "constant "+n, "", "equals the documented bound", sprintf("retry.%s is %s, the documented bound is %s", n, got, want[n]))
	}
	// clamps inside Validate
	type clamp struct {
		field string
		lower bool
		bound string // const value or "field:X"
		cmpOn string // what the test compares: "copy" (the validated copy) or "recv"
		store *ssa.Store
	}
	var target ssa.Value // the local copy being clamped (set per store below)
	describe := func(v ssa.Value) (string, string) {
		if cst, ok := v.(*ssa.Const); ok && cst.Value != nil {
			if f, ok := constant.Float64Val(constant.ToFloat(cst.Value)); ok {
				return sprintf("%g", f), ""
			}
		}
		if f, base, ok := ir.LoadedField(v); ok {
			src := "copy"
			if rootOf(base) != target {
				src = "recv" // read from something other than the copy being clamped (the raw receiver)
			}
			return "field:" + f.Name, src
		}
		return "?", ""
	}
	var clamps []clamp
	pd := flow.NewPostDom(validate)
	ir.EachInstr(validate, func(_ *ssa.BasicBlock, _ int, in ssa.Instruction) {
		st, ok := in.(*ssa.Store)
		if !ok {
			return
		}
		f, base, ok := ir.FieldOf(st.Addr)
		if !ok || f.Struct == nil || f.Struct.Obj().Name() != "Config" {
			return
		}
		if _, isAlloc := rootOf(base).(*ssa.Alloc); !isAlloc {
			return
		}
		target = rootOf(base)
		// `copy.F = clamp(copy.F, low, high)` through a clamp helper (v below low -> low, above high -> high, else v)
		if hc, ok := st.Val.(*ssa.Call); ok && len(hc.Call.Args) == 3 {
			if sc := ir.StaticCallee(hc); sc != nil && c.P.IsLib(sc) && isClampHelper(sc) {
				if lf, _, isField := ir.LoadedField(hc.Call.Args[0]); isField && lf.Name == f.Name {
					_, vsrc := describe(hc.Call.Args[0])
					ldesc, lsrc := describe(hc.Call.Args[1])
					udesc, usrc := describe(hc.Call.Args[2])
					clamps = append(clamps, clamp{f.Name, true, ldesc, vsrc + "/" + lsrc, st})
					clamps = append(clamps, clamp{f.Name, false, udesc, vsrc + "/" + usrc, st})
					return
				}
			}
		}
		for _, g := range pd.ControlDeps(st.Block()) {
			bin, ok := g.If.Cond.(*ssa.BinOp)
			if !ok || !g.Branch {
				continue
			}
			lf, lbase, isField := ir.LoadedField(bin.X)
			if !isField || lf.Name != f.Name {
				continue
			}
			_ = lbase
			bdesc, bsrc := describe(bin.Y)
			sdesc, ssrc := describe(st.Val)
			if bdesc != sdesc {
				continue
			}
			switch bin.Op {
			case token.LSS:
				clamps = append(clamps, clamp{f.Name, true, bdesc, bsrc + "/" + ssrc, st})
			case token.GTR:
				clamps = append(clamps, clamp{f.Name, false, bdesc, bsrc + "/" + ssrc, st})
			}
		}
	})
	expect := []struct {
		field string
		lower bool
		bound string
	}{
		{"MaxRetries", true, "0"}, {"MaxRetries", false, "10"},
		{"InitialBackoff", true, "1e+06"}, {"InitialBackoff", false, "3e+10"},
		{"BackoffFactor", true, "1"}, {"BackoffFactor", false, "10"},
		{"MaxBackoff", true, "field:InitialBackoff"}, {"MaxBackoff", false, "3e+11"},
	}
	for _, e := range expect {
		side := "upper"
		if e.lower {
			side = "lower"
		}
		construct := sprintf("Validate clamps %s (%s)", e.field, side)
		var hit *clamp
		for i := range clamps {
			if clamps[i].field == e.field && clamps[i].lower == e.lower {
				hit = &clamps[i]
			}
		}
		if hit == nil {
			c.R.Violate("R-clamp", construct, c.Pos(validate.Pos()), sprintf("Config.Validate has no %s clamp for %s", side, e.field))
			continue
		}
		if hit.bound != e.bound {
			c.R.Violate("R-clamp", construct, c.Pos(hit.store.Pos()), sprintf("Config.Validate clamps %s (%s) to %s, documented bound is %s", e.field, side, hit.bound, e.bound))
			continue
		}
		if strings.Contains(hit.cmpOn, "recv") {
			c.R.Violate("R-clamp", construct, c.Pos(hit.store.Pos()),
				sprintf("the %s clamp of %s uses the receiver's raw %s instead of the already clamped copy: the result can leave the documented range and clamping is not idempotent", side, e.field, strings.TrimPrefix(hit.bound, "field:")))
			continue
		}
		c.R.Hold("R-clamp", construct, c.Pos(hit.store.Pos()), "clamped to "+hit.bound)
	}
	// the InitialBackoff clamps precede the MaxBackoff lower clamp
	var initStores, maxLower []*ssa.Store
	for _, cl := range clamps {
		if cl.field == "InitialBackoff" {
			initStores = append(initStores, cl.store)
		}
		if cl.field == "MaxBackoff" && cl.lower {
			maxLower = append(maxLower, cl.store)
		}
	}
	okOrder := len(maxLower) > 0
	for _, m := range maxLower {
		for _, i := range initStores {
			if flow.Reaches(m, i) {
				okOrder = false
			}
		}
	}
	c.R.Check(okOrder, "R-clamp", "InitialBackoff clamped before MaxBackoff", c.Pos(validate.Pos()), "order holds", "MaxBackoff is clamped against InitialBackoff before InitialBackoff itself is clamped")
	c.R.Min("R-clamp", 16)
}

func rootOf(v ssa.Value) ssa.Value {
	for i := 0; i < 8; i++ {
		switch x := v.(type) {
		case *ssa.FieldAddr:
			v = x.X
		case *ssa.UnOp:
			v = x.X
		case *ssa.Field:
			v = x.X
		default:
			return v
		}
	}
	return v
}

// ---------------------------------------------------------------- R-code-table
func c17Table(c *Ctx) {
	sp := c.P.SSAPkg[retryPkg]
	initFn := sp.Func("init")
	got := map[string]bool{}
	if initFn == nil {
		c.R.Break("retry package initialiser not found")
		return
	}
	tableFound := false
	// string tables of the initialiser, grouped by backing array; the status table is the one holding numerals
	tables := map[ssa.Value]map[string]bool{}
	numeric := map[ssa.Value]bool{}
	ir.EachInstr(initFn, func(_ *ssa.BasicBlock, _ int, in ssa.Instruction) {
		st, ok := in.(*ssa.Store)
		if !ok {
			return
		}
		ia, ok := st.Addr.(*ssa.IndexAddr)
		if !ok {
			return
		}
		if ir.TypeStr(st.Val.Type()) != "string" {
			return
		}
		if tables[ia.X] == nil {
			tables[ia.X] = map[string]bool{}
		}
		if s, ok := ir.ConstStr(st.Val); ok {
			tables[ia.X][s] = true
			if _, err := strconv.Atoi(s); err == nil {
				numeric[ia.X] = true
			}
			return
		}
		if call, ok := st.Val.(*ssa.Call); ok && ir.CallName(call) == "strconv.Itoa" {
			numeric[ia.X] = true
			if n, ok := ir.ConstInt(call.Call.Args[0]); ok {
				tables[ia.X][sprintf("%d", n)] = true
				return
			}
		}
		tables[ia.X]["?"] = true
	})
	for arr, t := range tables {
		if numeric[arr] {
			tableFound = true
			for k := range t {
				got[k] = true
			}
		}
	}
	if !tableFound {
		c.R.Break("retryable status table initialiser not found")
		return
	}
	want := map[string]bool{"408": true, "409": true, "429": true}
	for i := 500; i <= 511; i++ {
		want[sprintf("%d", i)] = true
	}
	var extra, missing []string
	for k := range got {
		if !want[k] {
			extra = append(extra, k)
		}
	}
	for k := range want {
		if !got[k] {
			missing = append(missing, k)
		}
	}
	sort.Strings(extra)
	sort.Strings(missing)
	c.R.Check(len(extra) == 0 && len(missing) == 0, "R-code-table", "retryable status codes", c.Pos(initFn.Pos()),
		sprintf("%d codes: 408, 409, 429 and 500-511", len(got)),
		sprintf("the retryable status table is not {408,409,429} ∪ 5xx: unexpected %v, missing %v", extra, missing))
	// the classifier consults only this table for status codes: no other numeric literals in the status matcher
	c.R.Min("R-code-table", 1)
}

// ---------------------------------------------------------------- options store Validate's result
func c17Options(c *Ctx, validate *ssa.Function) {
	n := 0
	for _, fn := range c.P.LibFns {
		ir.EachInstr(fn, func(_ *ssa.BasicBlock, _ int, in ssa.Instruction) {
			st, ok := in.(*ssa.Store)
			if !ok {
				return
			}
			f, _, ok := ir.FieldOf(st.Addr)
			if !ok || ir.TypeStr(f.Type) != "*mcp/internal/retry.Config" {
				return
			}
			if f2, _, ok := ir.LoadedField(st.Val); ok && ir.TypeStr(f2.Type) == "*mcp/internal/retry.Config" {
				return // copying the client's validated config to the transport
			}
			if p, isParam := st.Val.(*ssa.Parameter); isParam {
				// a setter: judged by what its library callers hand it (a member that holds a validated configuration
				// already, or something that descends from Validate)
				idx := -1
				for i, q := range fn.Params {
					if q == p {
						idx = i
					}
				}
				callers, good := 0, true
				fromMember := true
				for _, e := range ir.Callers(c.G, fn) {
					if e.Site == nil || !c.P.IsLib(e.Caller.Func) {
						continue
					}
					args := e.Site.Common().Args
					off := 0
					if e.Site.Common().IsInvoke() {
						off = 1
					}
					if idx-off < 0 || idx-off >= len(args) {
						continue
					}
					a := args[idx-off]
					if f3, _, ok := ir.LoadedField(a); ok && ir.TypeStr(f3.Type) == "*mcp/internal/retry.Config" {
						continue
					}
					fromMember = false
					callers++
					if !derivesFromValidate(c, validate, e.Caller.Func, a, 0, map[ssa.Value]bool{}) {
						good = false
					}
				}
				if fromMember || callers == 0 {
					return // a setter forwarding an already validated config
				}
				n++
				c.R.Check(good, "R-clamp", "retry config stored in "+fname(fn), c.Pos(st.Pos()), "every caller hands the setter a configuration that descends from Validate()",
					sprintf("%s stores the retry configuration its callers hand it, and one of them passes one that did not pass through Config.Validate: out-of-range values reach the executor", fname(fn)))
				return
			}
			n++
			construct := "retry config stored in " + fname(fn)
			validated := false
			if al, ok := st.Val.(*ssa.Alloc); ok {
				for _, r := range *al.Referrers() {
					if s2, ok := r.(*ssa.Store); ok && s2.Addr == al {
						if call, ok := s2.Val.(*ssa.Call); ok && ir.StaticCallee(call) == validate {
							validated = true
						}
					}
				}
			}
			c.R.Check(validated, "R-clamp", construct, c.Pos(st.Pos()), "the stored configuration is the result of Validate()",
				sprintf("%s stores a retry configuration that did not pass through Config.Validate: out-of-range values reach the executor", fname(fn)))
		})
	}
	if n < 1 { // (both options may install the configuration through one shared helper)
		c.R.Break("no store of a retry configuration found (expected the public retry options to install one)")
	}
}

// ---------------------------------------------------------------- error text read by the classifier
var statusPattern = regexp.MustCompile(`(?i)(http|status:?|code:?) %d`)

func c17ErrorText(c *Ctx, exec *ssa.Function) {
	// operations handed to retry.Execute and everything they call synchronously
	var ops []*ssa.Function
	for _, ro := range retryOps(c, exec) {
		ops = append(ops, ro.op)
	}
	if len(ops) < 2 {
		c.R.Break("expected at least two transports to wrap their send in retry.Execute (found %d)", len(ops))
		return
	}
	reach := c.ReachSync(ops...)
	n := map[string]int{}
	for _, fn := range sortedFuncs(reach) {
		ir.EachInstr(fn, func(_ *ssa.BasicBlock, _ int, in ssa.Instruction) {
			call, ok := in.(*ssa.Call)
			if !ok || ir.CallName(call) != "fmt.Errorf" {
				return
			}
			format, ok := ir.ConstStr(call.Call.Args[0])
			if !ok {
				return
			}
			elems := variadicElems(call.Call.Args[1])
			statusIdx := -1
			bodyIdx := -1
			for i, e := range elems {
				if e == nil {
					continue
				}
				v := ir.Unwrap(e)
				if fieldLoadNamed(v, "StatusCode") {
					statusIdx = i
				}
				if derivesFromBody(v, 0) {
					bodyIdx = i
				}
			}
			if statusIdx < 0 {
				return
			}
			key := "status error text in " + fname(fn)
			n[key]++
			construct := key
			if n[key] > 1 {
				construct = sprintf("%s#%d", key, n[key])
			}
			// which verb renders the status code?
			okFmt := false
			verb := 0
			for i := 0; i+1 < len(format); i++ {
				if format[i] != '%' {
					continue
				}
				if format[i+1] == '%' {
					i++
					continue
				}
				if verb == statusIdx {
					start := i - 12
					if start < 0 {
						start = 0
					}
					okFmt = statusPattern.MatchString(format[start : i+2])
				}
				verb++
			}
			c.R.Check(okFmt, "R-status-in-text", construct, c.Pos(call.Pos()), "the status code is rendered in a form the classifier recognises",
				sprintf("%s renders the HTTP status with format %q, which IsRetryableError does not recognise: 5xx/408/409/429 answers would not be retried", fname(fn), format))
			// any other free-form text in the same message is matched by the classifier's substring patterns as well: only
			// fixed text (constants, sentinel errors, the status code and its standard phrase) is harmless
			freeIdx := -1
			for i, e := range elems {
				if e == nil || i == statusIdx || i == bodyIdx {
					continue
				}
				if !c17FixedText(ir.Unwrap(e), 0) {
					freeIdx = i
				}
			}
			if bodyIdx < 0 && freeIdx >= 0 && !classifiedByCode(c, call) {
				c.R.Violate("R-body-taint", construct, c.Pos(call.Pos()),
					sprintf("%s renders run-time text (argument %d: %s) into the status error that IsRetryableError substring-matches: when that text contains something like \"503 \" (a request id, a method, a path) a non-retryable answer such as 403 is retried", fname(fn), freeIdx+1, c17Describe(ir.Unwrap(elems[freeIdx]))))
				return
			}
			if bodyIdx >= 0 && classifiedByCode(c, call) {
				c.R.Hold("R-body-taint", construct, c.Pos(call.Pos()), "the error is wrapped in a typed status error that the classifier judges by its code alone; its text is not inspected")
			} else if bodyIdx >= 0 {
				c.R.Violate("R-body-taint", construct, c.Pos(call.Pos()),
					sprintf("%s appends the response BODY to the error text that IsRetryableError substring-matches: a non-retryable answer (e.g. 403) whose body contains text like \"503 \" is retried", fname(fn)))
			} else {
				c.R.Hold("R-body-taint", construct, c.Pos(call.Pos()), "no peer-controlled text in the classified error")
			}
		})
	}
	c.R.Min("R-status-in-text", 2)
}

// c17FixedText: the rendered value cannot vary with peer- or caller-supplied data: a constant, a package-level
// sentinel, the response's status code (and conversions of it), or net/http's phrase for a status code.
func c17FixedText(v ssa.Value, d int) bool {
	if d > 6 || v == nil {
		return false
	}
	switch x := v.(type) {
	case *ssa.Const:
		return true
	case *ssa.UnOp:
		if _, ok := x.X.(*ssa.Global); ok {
			return true
		}
		return fieldLoadNamed(x, "StatusCode")
	case *ssa.Convert:
		return c17FixedText(x.X, d+1)
	case *ssa.ChangeType:
		return c17FixedText(x.X, d+1)
	case *ssa.MakeInterface:
		return c17FixedText(x.X, d+1)
	case *ssa.Call:
		if n := ir.CallName(x); n == "net/http.StatusText" || n == "strconv.Itoa" {
			return len(x.Call.Args) == 1 && c17FixedText(x.Call.Args[0], d+1)
		}
	case *ssa.Phi:
		for _, e := range x.Edges {
			if !c17FixedText(e, d+1) {
				return false
			}
		}
		return true
	}
	return false
}

func c17Describe(v ssa.Value) string {
	if call, ok := v.(*ssa.Call); ok {
		return "result of " + ir.CallName(call)
	}
	if p := ir.Path(v); p != "" {
		return p
	}
	return v.Name() + " " + ir.TypeStr(v.Type())
}

func derivesFromBody(v ssa.Value, d int) bool {
	if d > 6 || v == nil {
		return false
	}
	switch x := v.(type) {
	case *ssa.Call:
		if ir.CallName(x) == "io.ReadAll" || ir.CallName(x) == "io/ioutil.ReadAll" {
			return true
		}
	case *ssa.Extract:
		return derivesFromBody(x.Tuple, d+1)
	case *ssa.Convert:
		return derivesFromBody(x.X, d+1)
	case *ssa.MakeInterface:
		return derivesFromBody(x.X, d+1)
	case *ssa.Phi:
		for _, e := range x.Edges {
			if derivesFromBody(e, d+1) {
				return true
			}
		}
	}
	return false
}

// classifiedByCode: the error built by this Errorf call is stored into a member of a freshly allocated library
// struct T, T also receives the response's StatusCode in another member, and the retry classifier handles T through
// errors.As and returns on that edge before it looks at any error text.
func classifiedByCode(c *Ctx, errf *ssa.Call) bool {
	if classifiedByCodeAt(c, errf) {
		return true
	}
	// the text is made by a helper that returns it: every retried caller of the helper wraps what it gets in the
	// typed error (callers outside the retried operations are not classified at all)
	fn := errf.Parent()
	returned := false
	ir.EachInstr(fn, func(_ *ssa.BasicBlock, _ int, in ssa.Instruction) {
		if ret, ok := in.(*ssa.Return); ok {
			for _, r := range ir.Results(ret) {
				if unspill(r) == ssa.Value(errf) {
					returned = true
				}
			}
		}
	})
	if !returned || fn.Signature.Results().Len() != 1 {
		return false
	}
	exec := c.P.Func(retryPkg, "Execute")
	var ops []*ssa.Function
	if exec != nil {
		for _, ro := range retryOps(c, exec) {
			ops = append(ops, ro.op)
		}
	}
	reach := c.ReachSync(ops...)
	n := 0
	for _, e := range ir.Callers(c.G, fn) {
		site, ok := e.Site.(*ssa.Call)
		if !ok || !reach[e.Caller.Func] {
			continue
		}
		n++
		if !classifiedByCodeAt(c, site) {
			return false
		}
	}
	return n > 0
}

func classifiedByCodeAt(c *Ctx, errf *ssa.Call) bool {
	classify := c.P.Func(retryPkg, "IsRetryableError")
	if classify == nil || errf.Referrers() == nil {
		return false
	}
	for _, r := range *errf.Referrers() {
		st, ok := r.(*ssa.Store)
		if !ok {
			continue
		}
		f, base, ok := ir.FieldOf(st.Addr)
		if !ok || f.Struct == nil || !ir.BaseAlloc(base) {
			continue
		}
		// the same object carries the status code
		hasCode := false
		al, _ := base.(*ssa.Alloc)
		if al == nil {
			continue
		}
		for _, rr := range *al.Referrers() {
			fa, ok := rr.(*ssa.FieldAddr)
			if !ok || fa.Referrers() == nil {
				continue
			}
			for _, r2 := range *fa.Referrers() {
				if s2, ok := r2.(*ssa.Store); ok && fieldLoadNamed(ir.Unwrap(s2.Val), "StatusCode") {
					hasCode = true
				}
			}
		}
		if !hasCode {
			continue
		}
		// the classifier: errors.As(err, &target) with target of type *T, true edge reaches a return without touching text
		okAs := false
		ir.EachInstr(classify, func(_ *ssa.BasicBlock, _ int, in ssa.Instruction) {
			as, ok := in.(*ssa.Call)
			if !ok || ir.CallName(as) != "errors.As" || len(as.Call.Args) != 2 {
				return
			}
			tgt := ir.Unwrap(as.Call.Args[1])
			pt, ok := tgt.Type().(*types.Pointer)
			if !ok {
				return
			}
			pt2, ok := pt.Elem().(*types.Pointer)
			if !ok {
				return
			}
			nt, ok := pt2.Elem().(*types.Named)
			if !ok || nt != f.Struct {
				return
			}
			for _, rr := range *as.Referrers() {
				ifi, ok := rr.(*ssa.If)
				if !ok {
					continue
				}
				textTouched := false
				for b := range flow.BlocksReachableAvoiding(ifi.Block().Succs[0], map[*ssa.BasicBlock]bool{}) {
					for _, x := range b.Instrs {
						if cl, ok := x.(*ssa.Call); ok {
							n := ir.CallName(cl)
							if strings.HasPrefix(n, "strings.") || strings.HasSuffix(n, ").Error") {
								textTouched = true
							}
						}
					}
				}
				if !textTouched {
					okAs = true
				}
			}
		})
		if okAs {
			return true
		}
	}
	return false
}

// ---------------------------------------------------------------- R-no-transport-replay
// net/http re-sends a request on its own, without telling the caller, when a reused connection dies and the request is
// "replayable": GET/HEAD/OPTIONS/TRACE, or ANY method carrying an Idempotency-Key / X-Idempotency-Key header (bodies made
// by http.NewRequest from a bytes.Reader can be rewound). A POST that carries such a header is therefore attempted
// more often than the retry configuration allows — once more per attempt, and twice with no retry configured at all.
func c17NoTransportReplay(c *Ctx) {
	n := 0
	for _, fn := range c.P.LibFns {
		if !clientSide(c, fn) {
			continue
		}
		ir.EachCall(fn, func(call ssa.CallInstruction) {
			name := ir.CallName(call)
			if name != "(net/http.Header).Set" && name != "(net/http.Header).Add" {
				return
			}
			args := call.Common().Args
			if len(args) != 3 {
				return
			}
			n++
			k, ok := ir.ConstStr(args[1])
			if !ok {
				return
			}
			if strings.EqualFold(k, "Idempotency-Key") || strings.EqualFold(k, "X-Idempotency-Key") {
				c.R.Violate("R-no-transport-replay", "replay header set in "+fname(fn), c.Pos(call.Pos()),
					sprintf("%s sets the %s header: net/http then treats the request as replayable and silently sends it again when a kept-alive connection is dropped — attempts beyond what the retry configuration allows", fname(fn), k))
			}
		})
	}
	c.R.Hold("R-no-transport-replay", "no request is marked replayable for net/http", "", sprintf("%d header writes of the clients examined; none sets Idempotency-Key / X-Idempotency-Key", n))
}

type errFacts struct{ nonNil, transient bool }

// errPredicateFacts summarises a bool-returning helper H(err): for each result value it can return, whether that value
// implies "err != nil" and "classify(err) is true" on every path that can produce it. Paths are the helper's returns
// with the edges of `err == nil` tests and of classify(err) calls that control them; a returned value is a constant,
// classify(err) or !classify(err).
func errPredicateFacts(H *ssa.Function, p *ssa.Parameter, classify *ssa.Function) map[bool]errFacts {
	res := H.Signature.Results()
	if res.Len() != 1 || ir.TypeStr(res.At(0).Type()) != "bool" {
		return nil
	}
	type path struct {
		canBe            map[bool]bool // result values this path can produce
		nonNil, nilKnown bool
		cls, clsKnown    bool
		valueIsCls       int // 0: constant, 1: value == cls, -1: value == !cls
	}
	isCls := func(v ssa.Value) bool {
		call, ok := v.(*ssa.Call)
		return ok && ir.StaticCallee(call) == classify && len(call.Call.Args) == 1 && call.Call.Args[0] == ssa.Value(p)
	}
	var paths []path
	ok := true
	ir.EachInstr(H, func(blk *ssa.BasicBlock, _ int, in ssa.Instruction) {
		r, isRet := in.(*ssa.Return)
		if !isRet || blk == H.Recover {
			return
		}
		pt := path{canBe: map[bool]bool{}}
		for _, g := range flow.Guards(H, blk) {
			if v, op, isNil := nilCompare(g.If.Cond); isNil && v == ssa.Value(p) {
				pt.nilKnown = true
				pt.nonNil = (op == token.NEQ) == g.Branch
			}
			if isCls(g.If.Cond) {
				pt.clsKnown, pt.cls = true, g.Branch
			}
		}
		v := ir.Results(r)[0]
		switch x := v.(type) {
		case *ssa.Const:
			pt.canBe[x.Value != nil && x.Value.String() == "true"] = true
		case *ssa.UnOp:
			if x.Op == token.NOT && isCls(x.X) {
				pt.valueIsCls = -1
				pt.canBe[true], pt.canBe[false] = true, true
			} else {
				ok = false
			}
		case *ssa.Call:
			if isCls(x) {
				pt.valueIsCls = 1
				pt.canBe[true], pt.canBe[false] = true, true
			} else {
				ok = false
			}
		case *ssa.Phi:
			// `a || b` / `a && b` lowered to a phi of constants and a classify call
			for i, e := range x.Edges {
				sub := path{canBe: map[bool]bool{}, nonNil: pt.nonNil, nilKnown: pt.nilKnown}
				for _, g := range flow.Guards(H, x.Block().Preds[i]) {
					if vv, op, isNil := nilCompare(g.If.Cond); isNil && vv == ssa.Value(p) {
						sub.nilKnown = true
						sub.nonNil = (op == token.NEQ) == g.Branch
					}
				}
				// the edge itself may be the nil test's own block
				if last, isIf := x.Block().Preds[i].Instrs[len(x.Block().Preds[i].Instrs)-1].(*ssa.If); isIf {
					if vv, op, isNil := nilCompare(last.Cond); isNil && vv == ssa.Value(p) {
						branch := x.Block().Preds[i].Succs[0] == x.Block()
						sub.nilKnown = true
						sub.nonNil = (op == token.NEQ) == branch
					}
				}
				switch y := e.(type) {
				case *ssa.Const:
					sub.canBe[y.Value != nil && y.Value.String() == "true"] = true
				case *ssa.UnOp:
					if y.Op == token.NOT && isCls(y.X) {
						sub.valueIsCls = -1
						sub.canBe[true], sub.canBe[false] = true, true
					} else {
						ok = false
					}
				case *ssa.Call:
					if isCls(y) {
						sub.valueIsCls = 1
						sub.canBe[true], sub.canBe[false] = true, true
					} else {
						ok = false
					}
				default:
					ok = false
				}
				paths = append(paths, sub)
			}
			return
		default:
			ok = false
		}
		paths = append(paths, pt)
	})
	if !ok || len(paths) == 0 {
		return nil
	}
	out := map[bool]errFacts{}
	for _, val := range []bool{true, false} {
		f := errFacts{nonNil: true, transient: true}
		produced := false
		for _, pt := range paths {
			if !pt.canBe[val] {
				continue
			}
			produced = true
			// classification on this path when it yields val
			cls, clsKnown := pt.cls, pt.clsKnown
			switch pt.valueIsCls {
			case 1:
				cls, clsKnown = val, true
			case -1:
				cls, clsKnown = !val, true
			}
			if !(clsKnown && cls) {
				f.transient = false
			}
			// classify(err) == true implies err != nil (checked for the classifier by R-retry-edge's own anchor: it
			// returns false first thing for a nil error)
			if !((pt.nilKnown && pt.nonNil) || (clsKnown && cls)) {
				f.nonNil = false
			}
		}
		if produced {
			out[val] = f
		}
	}
	return out
}

// c17TypedErrorsWrapped (R-body-taint): a failure whose HTTP status is known travels as a typed error that the
// classifier recognises with errors.As — so that it is judged by its code alone, whatever the body says. An error of
// a function that may produce that type must therefore be wrapped with %w wherever it is turned into a new error on a
// retried path: formatted with %v the type is gone, and the classifier falls back to substring-matching the text
// (which contains the response body).
func c17TypedErrorsWrapped(c *Ctx, classify *ssa.Function) {
	typed := map[*types.Named]bool{}
	ir.EachCall(classify, func(call ssa.CallInstruction) {
		if ir.CallName(call) != "errors.As" || len(call.Common().Args) != 2 {
			return
		}
		t := ir.Unwrap(call.Common().Args[1]).Type()
		for i := 0; i < 2; i++ {
			if pt, ok := t.(*types.Pointer); ok {
				t = pt.Elem()
			}
		}
		if nt, ok := t.(*types.Named); ok && ir.InLibrary(nt) {
			typed[nt] = true
		}
	})
	if len(typed) == 0 {
		c.R.Hold("R-body-taint", "the classifier recognises no typed error", "", "")
		return
	}
	// functions that may return such an error: they create one, or return the error of a function that may
	producers := map[*ssa.Function]bool{}
	errResultOf := func(v ssa.Value) *ssa.Function {
		v = ir.Unwrap(v)
		if ex, ok := v.(*ssa.Extract); ok {
			v = ex.Tuple
		}
		if call, ok := v.(*ssa.Call); ok {
			return ir.StaticCallee(call)
		}
		return nil
	}
	var mayCarry func(v ssa.Value, d int) bool
	mayCarry = func(v ssa.Value, d int) bool {
		if d > 6 || v == nil {
			return false
		}
		switch x := v.(type) {
		case *ssa.MakeInterface:
			if pt, ok := x.X.Type().(*types.Pointer); ok {
				if nt, ok := pt.Elem().(*types.Named); ok && typed[nt] {
					return true
				}
			}
			return mayCarry(x.X, d+1)
		case *ssa.Phi:
			for _, e := range x.Edges {
				if mayCarry(e, d+1) {
					return true
				}
			}
		case *ssa.Extract, *ssa.Call:
			if sc := errResultOf(x); sc != nil && producers[sc] {
				return true
			}
		case *ssa.UnOp:
			if u := unspill(x); u != ssa.Value(x) {
				return mayCarry(u, d+1)
			}
		}
		return false
	}
	for changed := true; changed; {
		changed = false
		for _, fn := range c.P.LibFns {
			if producers[fn] {
				continue
			}
			ir.EachInstr(fn, func(b *ssa.BasicBlock, _ int, in ssa.Instruction) {
				r, ok := in.(*ssa.Return)
				if !ok || b == fn.Recover || producers[fn] {
					return
				}
				for _, rv := range ir.Results(r) {
					if ir.TypeStr(rv.Type()) == "error" && mayCarry(rv, 0) {
						producers[fn] = true
						changed = true
					}
				}
			})
		}
	}
	n := 0
	// only what a retried operation can return is classified
	var ops []*ssa.Function
	if exec := c.P.Func(retryPkg, "Execute"); exec != nil {
		for _, ro := range retryOps(c, exec) {
			ops = append(ops, ro.op)
		}
	}
	retried := c.ReachSync(ops...)
	for _, fn := range c.P.LibFns {
		if !clientSide(c, fn) || !retried[fn] {
			continue
		}
		cnt := 0
		ir.EachInstr(fn, func(_ *ssa.BasicBlock, _ int, in ssa.Instruction) {
			call, ok := in.(*ssa.Call)
			if !ok || ir.CallName(call) != "fmt.Errorf" || len(call.Call.Args) < 2 {
				return
			}
			format, ok := ir.ConstStr(call.Call.Args[0])
			if !ok {
				return
			}
			var verbs []byte
			for i := 0; i+1 < len(format); i++ {
				if format[i] != '%' {
					continue
				}
				j := i + 1
				for j < len(format) && strings.IndexByte("+-# 0123456789.[]*", format[j]) >= 0 {
					j++
				}
				if j < len(format) {
					if format[j] != '%' {
						verbs = append(verbs, format[j])
					}
					i = j
				}
			}
			for i, e := range variadicElems(call.Call.Args[1]) {
				if e == nil {
					continue
				}
				v := e
				for {
					if mi, ok := v.(*ssa.MakeInterface); ok {
						v = mi.X
						continue
					}
					if ci, ok := v.(*ssa.ChangeInterface); ok {
						v = ci.X
						continue
					}
					break
				}
				if ir.TypeStr(v.Type()) != "error" {
					continue
				}
				if !mayCarry(v, 0) {
					continue
				}
				n++
				cnt++
				c.R.Check(i < len(verbs) && verbs[i] == 'w', "R-body-taint", sprintf("status-bearing error re-wrapped in %s #%d", fname(fn), cnt), c.Pos(call.Pos()),
					"wrapped with %w: the classifier still sees the typed status error",
					sprintf("%s formats an error that may be a typed status error (from %s) with %%%c instead of %%w: the type is lost, and the retry classifier substring-matches a text that contains the response body — a 403 whose body mentions \"503 \" or \"connection refused\" is retried", fname(fn), fnameOrNil(errResultOf(v)), verbAt(verbs, i)))
			}
		})
	}
	if n == 0 {
		c.R.Hold("R-body-taint", "no error that may carry a typed status error is re-formatted", "", sprintf("%d producer function(s)", len(producers)))
	}
}

// c17NoNestedRetry (R-attempt-bound): an operation handed to the retry executor does not itself run the retry executor
// (a policy applied by the client AND by the transport makes (MaxRetries+1)^2 attempts and restarts the backoff sequence).
func c17NoNestedRetry(c *Ctx, exec *ssa.Function) {
	for _, ro := range retryOps(c, exec) {
		nested := c.ReachSync(ro.op)[exec]
		c.R.Check(!nested, "R-attempt-bound", "operation retried by "+fname(ro.by)+" does not retry itself", c.Pos(ro.site.Pos()),
			"the operation makes a single attempt",
			sprintf("the operation %s hands to the retry executor reaches the retry executor again (the transport retries inside the client's retry): up to (MaxRetries+1)^2 attempts, and the wait sequence restarts after every outer wait", fname(ro.by)))
	}
}

// retryOps: the operations that are retried — function values handed to the retry executor, directly or through a
// helper that forwards one of its own parameters to it (withRetry(ctx, cfg, name, op)).
type retryOp struct {
	op   *ssa.Function
	by   *ssa.Function // the function that supplies the operation
	site ssa.CallInstruction
}

func retryOps(c *Ctx, exec *ssa.Function) []retryOp {
	var out []retryOp
	var collect func(callee *ssa.Function, idx int, d int)
	collect = func(callee *ssa.Function, idx int, d int) {
		for _, e := range ir.Callers(c.G, callee) {
			if e.Site == nil || !c.P.IsLib(e.Caller.Func) {
				continue
			}
			args := e.Site.Common().Args
			for i, a := range args {
				if idx >= 0 && i != idx {
					continue
				}
				if f := funcValue(a); f != nil {
					out = append(out, retryOp{f, e.Caller.Func, e.Site})
					// an adapter closure around a function the enclosing helper was handed (operation := func() error
					// { result, err = op(); return err }): the retried operations are what the helper's callers pass
					if mc, ok := a.(*ssa.MakeClosure); ok && d < 2 {
						for _, b := range mc.Bindings {
							var src ssa.Value = b
							if al, ok := b.(*ssa.Alloc); ok {
								for _, r := range *al.Referrers() {
									if st, ok := r.(*ssa.Store); ok && st.Addr == ssa.Value(al) {
										src = st.Val
									}
								}
							}
							if p, ok := src.(*ssa.Parameter); ok {
								if _, isSig := p.Type().Underlying().(*types.Signature); isSig {
									for j, q := range e.Caller.Func.Params {
										if q == p {
											collect(e.Caller.Func, j, d+1)
										}
									}
								}
							}
						}
					}
					continue
				}
				if p, ok := a.(*ssa.Parameter); ok && d < 2 {
					if _, isSig := p.Type().Underlying().(*types.Signature); isSig {
						for j, q := range e.Caller.Func.Params {
							if q == p {
								collect(e.Caller.Func, j, d+1)
							}
						}
					}
				}
			}
		}
	}
	collect(exec, -1, 0)
	sort.Slice(out, func(i, j int) bool { return out[i].site.Pos() < out[j].site.Pos() })
	return out
}

// c17OneSendPerAttempt (R-attempt-bound): the bound "MaxRetries+1 sends, a wait between any two" counts attempts of the
// retry executor, so one attempt must put one HTTP request on the wire. In every library function an attempt runs
// through, a call that sends (net/http's Client.Do / RoundTrip, or a library function that reaches one) is not inside a
// loop and is not followed by another one on the same path: a resend hidden below the executor doubles the sends and
// happens without any wait.
func c17OneSendPerAttempt(c *Ctx, exec *ssa.Function) {
	isWire := func(call ssa.CallInstruction) bool {
		switch ir.CallName(call) {
		case "(*net/http.Client).Do", "(net/http.RoundTripper).RoundTrip", "(*net/http.Transport).RoundTrip",
			"(*net/http.Client).Post", "(*net/http.Client).Get", "(*net/http.Client).PostForm", "(*net/http.Client).Head":
			return true
		}
		return false
	}
	var ops []*ssa.Function
	for _, ro := range retryOps(c, exec) {
		ops = append(ops, ro.op)
	}
	if len(ops) == 0 {
		c.R.Break("R-attempt-bound: no retried operation found")
		return
	}
	reach := c.ReachSync(ops...)
	// senders: functions of an attempt from which a wire call is reachable
	sends := map[*ssa.Function]bool{}
	for fn := range reach {
		if !c.P.IsLib(fn) {
			continue
		}
		ir.EachCall(fn, func(call ssa.CallInstruction) {
			if isWire(call) {
				sends[fn] = true
			}
		})
	}
	if len(sends) == 0 {
		c.R.Break("R-attempt-bound: no call of net/http's Client.Do reachable from a retried operation")
		return
	}
	for changed := true; changed; {
		changed = false
		for fn := range reach {
			if sends[fn] || !c.P.IsLib(fn) {
				continue
			}
			ir.EachCall(fn, func(call ssa.CallInstruction) {
				if _, isGo := call.(*ssa.Go); isGo {
					return
				}
				for _, cal := range ir.Callees(c.G, call) {
					if sends[cal] && !sends[fn] {
						sends[fn] = true
						changed = true
					}
				}
			})
		}
	}
	// the request a send puts on the wire, followed back through WithContext / Clone and parameters of the function
	var reqRoot func(v ssa.Value, d int) ssa.Value
	reqRoot = func(v ssa.Value, d int) ssa.Value {
		if d > 8 {
			return v
		}
		switch x := v.(type) {
		case *ssa.Call:
			switch ir.CallName(x) {
			case "(*net/http.Request).WithContext", "(*net/http.Request).Clone":
				return reqRoot(x.Call.Args[0], d+1)
			}
		case *ssa.Phi:
			var root ssa.Value
			for _, e := range x.Edges {
				r := reqRoot(e, d+1)
				if root != nil && r != root {
					return v
				}
				root = r
			}
			if root != nil {
				return root
			}
		case *ssa.UnOp:
			if u := unspill(x); u != ssa.Value(x) {
				return reqRoot(u, d+1)
			}
		}
		return v
	}
	reqArg := func(call ssa.CallInstruction) ssa.Value {
		for _, a := range call.Common().Args {
			if ir.TypeStr(a.Type()) == "*net/http.Request" {
				return reqRoot(a, 0)
			}
		}
		return nil
	}
	n := 0
	for _, fn := range sortedFuncs(sends) {
		type site struct {
			call ssa.CallInstruction
			req  ssa.Value
		}
		var sites []site
		ir.EachCall(fn, func(call ssa.CallInstruction) {
			if _, isGo := call.(*ssa.Go); isGo {
				return
			}
			if _, isDefer := call.(*ssa.Defer); isDefer {
				return
			}
			if isWire(call) {
				sites = append(sites, site{call, reqArg(call)})
				return
			}
			for _, cal := range ir.Callees(c.G, call) {
				if sends[cal] && cal != fn {
					sites = append(sites, site{call, reqArg(call)})
					return
				}
			}
		})
		for i, s := range sites {
			n++
			bad := ""
			if flow.InCycle(s.call.Block()) {
				// a loop may send different requests; the same one when the request is made outside the loop
				made, ok := s.req.(ssa.Instruction)
				if s.req == nil || !ok || !sameLoop(made.Block(), s.call.Block()) {
					bad = "inside a loop, again and again the same request"
				}
			}
			for j, t := range sites {
				if i != j && s.req != nil && t.req == s.req && flow.Reaches(t.call, s.call) {
					bad = sprintf("a second time, after the send at %s on the same path", c.Pos(t.call.Pos()))
				}
			}
			c.R.Check(bad == "", "R-attempt-bound", sprintf("send #%d of one attempt in %s", i+1, fname(fn)), c.Pos(s.call.Pos()),
				"a request is sent once per attempt: not re-sent in a loop, not sent again later on the path",
				sprintf("%s, which an attempt of the retry executor runs through, sends the HTTP request %s: one attempt puts the call on the wire more than once, so it is sent more often than MaxRetries+1 times (twice without any retry configured) and the extra sends are not separated by a backoff wait", fname(fn), bad))
		}
	}
	if n < 3 {
		c.R.Break("R-attempt-bound: only %d sending call sites found below the retried operations", n)
	}
}

// c17CheckBeforeAttempt (R-cancel): "cancelling the caller's context ends the sequence at once" — no attempt of the
// retry loop is started without looking at the context first. Every path to the in-loop operation call from the
// function's entry, and from every wait (a blocking select: when timer and Done are ready together select may take the
// timer), passes a context check: a non-blocking select with an arm on ctx.Done(), or a ctx.Err() test — in the
// executor itself or in a helper it hands its context to.
func c17CheckBeforeAttempt(c *Ctx, exec *ssa.Function) {
	var ctxParam, op *ssa.Parameter
	for _, p := range exec.Params {
		if ir.TypeStr(p.Type()) == "context.Context" {
			ctxParam = p
		}
		if sig, ok := p.Type().Underlying().(*types.Signature); ok && sig.Params().Len() == 0 && sig.Results().Len() == 1 {
			op = p
		}
	}
	if ctxParam == nil || op == nil {
		return // reported by the loop rule
	}
	checksCtx := func(fn *ssa.Function, ctxv ssa.Value, in ssa.Instruction) bool {
		switch x := in.(type) {
		case *ssa.Select:
			if x.Blocking {
				return false
			}
			for _, st := range x.States {
				if oc := originCall(st.Chan); oc != nil && ir.CallName(oc) == "(context.Context).Done" && oc.Call.Value == ctxv {
					return true
				}
			}
		case *ssa.Call:
			if ir.CallName(x) == "(context.Context).Err" && x.Call.Value == ctxv {
				return true
			}
		}
		return false
	}
	isCheck := func(in ssa.Instruction) bool {
		if checksCtx(exec, ctxParam, in) {
			return true
		}
		call, ok := in.(*ssa.Call)
		if !ok {
			return false
		}
		sc := ir.StaticCallee(call)
		if sc == nil || !c.P.IsLib(sc) {
			return false
		}
		var hctx ssa.Value
		for i, a := range call.Call.Args {
			if a == ssa.Value(ctxParam) && i < len(sc.Params) {
				hctx = sc.Params[i]
			}
		}
		if hctx == nil {
			return false
		}
		found := false
		ir.EachInstr(sc, func(_ *ssa.BasicBlock, _ int, in2 ssa.Instruction) {
			if checksCtx(sc, hctx, in2) {
				found = true
			}
		})
		return found
	}
	var oc *ssa.Call
	ir.EachInstr(exec, func(_ *ssa.BasicBlock, _ int, in ssa.Instruction) {
		if call, ok := in.(*ssa.Call); ok && call.Call.Value == ssa.Value(op) && flow.InCycle(call.Block()) {
			oc = call
		}
	})
	if oc == nil {
		return
	}
	checkBlocks := map[*ssa.BasicBlock]bool{}
	inOwnBlock := false
	ir.EachInstr(exec, func(b *ssa.BasicBlock, i int, in ssa.Instruction) {
		if !isCheck(in) {
			return
		}
		if b == oc.Block() {
			if flow.Reaches(in, oc) && in.Block() == oc.Block() && flow.LocOf(in).I < flow.LocOf(oc).I {
				inOwnBlock = true
			}
			return
		}
		checkBlocks[b] = true
	})
	// starting points: the entry, and the continuation of every wait (blocking select / blocking helper)
	type start struct {
		what string
		from []*ssa.BasicBlock
		pos  token.Pos
	}
	starts := []start{{"the function's entry", []*ssa.BasicBlock{exec.Blocks[0]}, exec.Pos()}}
	ir.EachInstr(exec, func(b *ssa.BasicBlock, _ int, in ssa.Instruction) {
		blocking := false
		switch x := in.(type) {
		case *ssa.Select:
			blocking = x.Blocking
		case *ssa.Call:
			if sc := ir.StaticCallee(x); sc != nil && c.P.IsLib(sc) && sc != exec {
				ir.EachInstr(sc, func(_ *ssa.BasicBlock, _ int, in2 ssa.Instruction) {
					if sel, ok := in2.(*ssa.Select); ok && sel.Blocking {
						blocking = true
					}
				})
			}
		}
		if blocking {
			starts = append(starts, start{"the wait at " + c.Pos(in.Pos()), b.Succs, in.Pos()})
		}
	})
	for i, s := range starts {
		reached := false
		if !inOwnBlock {
			for _, f := range s.from {
				if f == oc.Block() && !checkBlocks[f] {
					reached = true
				}
				if checkBlocks[f] {
					continue
				}
				if flow.BlocksReachableAvoiding(f, checkBlocks)[oc.Block()] {
					reached = true
				}
			}
		}
		construct := "context checked before the first attempt"
		if i > 0 {
			construct = sprintf("context checked between wait #%d and the next attempt", i)
		}
		c.R.Check(!reached, "R-cancel", construct, c.Pos(oc.Pos()), "every path passes a non-blocking look at ctx.Done() / ctx.Err()",
			sprintf("the retry loop can go from %s to the next call of the operation without looking at the caller's context: a call whose context is already cancelled (or is cancelled while the timer fires) still makes an attempt — another request is sent after the cancellation", s.what))
	}
}

// ---------------------------------------------------------------- R-text-table
// Failures without a typed status are classified by text fragments. Which fragments make a failure transient is part
// of the property ("connection refused / reset / timeout, EOF and the listed status codes"): the set found on today's
// tree is the reference. The fragments are collected semantically — constant operands of strings.Contains / HasSuffix /
// HasPrefix / == / concatenation in the classifier and what it calls, and constant elements of the package's tables —
// so moving them into a table changes nothing, while a fragment outside the reference (for instance "dial tcp",
// which prefixes every failed connection attempt, permanent ones included) is reported.
var transientTextReference = map[string]bool{
	"connection refused": true, "connection reset": true, "connection timeout": true, "connection lost": true,
	"connection aborted": true, "i/o timeout": true, "read timeout": true, "write timeout": true, "dial timeout": true,
	"eof": true, ": eof": true,
	// shapes in which a status code may appear in a text (the codes themselves are judged by R-code-table)
	"http ": true, "status ": true, "status: ": true, "code ": true, "code: ": true, " ": true,
}

func c17TextTable(c *Ctx, classify *ssa.Function) {
	found := map[string]token.Pos{}
	note := func(v ssa.Value, pos token.Pos) {
		if s, ok := ir.ConstStr(v); ok && s != "" {
			if _, seen := found[strings.ToLower(s)]; !seen {
				found[strings.ToLower(s)] = pos
			}
		}
	}
	for fn := range c.ReachSync(classify) {
		if fn.Pkg == nil || fn.Pkg.Pkg.Path() != retryPkg {
			continue
		}
		ir.EachInstr(fn, func(_ *ssa.BasicBlock, _ int, in ssa.Instruction) {
			switch x := in.(type) {
			case *ssa.Call:
				switch ir.CallName(x) {
				case "strings.Contains", "strings.HasSuffix", "strings.HasPrefix", "strings.EqualFold", "strings.Index":
					for _, a := range x.Call.Args {
						note(a, x.Pos())
					}
				}
			case *ssa.BinOp:
				if x.Op == token.EQL || x.Op == token.ADD {
					if _, isStr := x.X.Type().Underlying().(*types.Basic); isStr {
						note(x.X, x.Pos())
						note(x.Y, x.Pos())
					}
				}
			}
		})
	}
	// constant elements of the package's string tables (filled in by the package initialiser)
	if pk := c.P.SSAPkg[retryPkg]; pk != nil {
		if init := pk.Func("init"); init != nil {
			ir.EachInstr(init, func(_ *ssa.BasicBlock, _ int, in ssa.Instruction) {
				st, ok := in.(*ssa.Store)
				if !ok {
					return
				}
				if _, isIdx := st.Addr.(*ssa.IndexAddr); isIdx {
					note(st.Val, st.Pos())
				}
			})
		}
	}
	var frags []string
	for f := range found {
		frags = append(frags, f)
	}
	sort.Strings(frags)
	if len(frags) < 8 {
		c.R.Break("R-text-table: only %d text fragments found in the classifier", len(frags))
	}
	for _, f := range frags {
		if _, err := strconv.Atoi(f); err == nil {
			continue // a status code written as text: R-code-table
		}
		c.R.Check(transientTextReference[f], "R-text-table", sprintf("text fragment %q", f), c.Pos(found[f]), "one of the fragments that mark a transient failure",
			sprintf("the retry classifier treats an error whose text contains %q as transient; that fragment is not among those that mark a transient failure (connection refused / reset / timeout / lost / aborted, i/o-, read-, write-, dial timeout, EOF): failures it also matches that are permanent are re-attempted MaxRetries times", f))
	}
}

// ---------------------------------------------------------------- R-config-immutable
// One retry configuration object is shared by a client and its transport for their whole life; every call reads it.
// "The k-th wait is InitialBackoff x Factor^(k-1) capped at MaxBackoff" holds for every call only if no call changes
// it: outside construction code (options, constructors, Validate on its own copy) nothing stores into a member of a
// retry configuration that is not a local copy — a per-call adjustment written through the shared pointer stays behind
// for all later calls.
func c17ConfigImmutable(c *Ctx) {
	isCfg := func(t *types.Named) bool {
		if t == nil {
			return false
		}
		k := ir.TypeKey(t)
		return k == "retry.Config" || k == "RetryConfig"
	}
	n := 0
	for _, fn := range c.P.LibFns {
		if c.InitOnly()[fn] {
			continue
		}
		ir.EachInstr(fn, func(_ *ssa.BasicBlock, _ int, in ssa.Instruction) {
			st, ok := in.(*ssa.Store)
			if !ok {
				return
			}
			fa, ok := st.Addr.(*ssa.FieldAddr)
			if !ok {
				return
			}
			f, base, ok := ir.FieldOf(fa)
			if !ok || !isCfg(f.Struct) {
				return
			}
			n++
			c.R.Check(ir.BaseAlloc(base), "R-config-immutable", sprintf("%s written in %s", f.Key(), fname(fn)), c.Pos(st.Pos()), "the configuration written is a local copy",
				sprintf("%s stores into %s of a retry configuration it did not make itself (one reached through a pointer it was handed or a member): that object is shared by the client and its transport, so the value written for this call is what every later call waits by — the k-th wait is no longer InitialBackoff x Factor^(k-1) capped at the configured MaxBackoff", fname(fn), f.Key()))
		})
	}
	if n == 0 {
		c.R.Hold("R-config-immutable", "no store into a retry configuration outside construction code", "", "")
	}
}


// isClampHelper: f(v, low, high) returns low on the true edge of v < low, high on the true edge of v > high, v otherwise.
func isClampHelper(f *ssa.Function) bool {
	if len(f.Params) != 3 || f.Signature.Results().Len() != 1 || f.Blocks == nil {
		return false
	}
	v, low, high := f.Params[0], f.Params[1], f.Params[2]
	gotLow, gotHigh, gotV := false, false, false
	for _, b := range f.Blocks {
		ret, ok := b.Instrs[len(b.Instrs)-1].(*ssa.Return)
		if !ok || b == f.Recover {
			continue
		}
		rv := ret.Results[0]
		guards := flow.Guards(f, b)
		has := func(op token.Token, x, y ssa.Value, branch bool) bool {
			for _, g := range guards {
				if bin, ok := g.If.Cond.(*ssa.BinOp); ok && bin.Op == op && bin.X == x && bin.Y == y && g.Branch == branch {
					return true
				}
			}
			return false
		}
		switch rv {
		case ssa.Value(low):
			if !has(token.LSS, v, low, true) {
				return false
			}
			gotLow = true
		case ssa.Value(high):
			if !has(token.GTR, v, high, true) {
				return false
			}
			gotHigh = true
		case ssa.Value(v):
			gotV = true
		default:
			return false
		}
	}
	return gotLow && gotHigh && gotV
}

// derivesFromValidate: the value descends from a call of Config.Validate — through local cells, copies, library helpers
// that return what they made of it (clone, a converter) and parameters (every library caller).
func derivesFromValidate(c *Ctx, validate *ssa.Function, fn *ssa.Function, v ssa.Value, d int, seen map[ssa.Value]bool) bool {
	if v == nil || d > 10 || seen[v] {
		return false
	}
	seen[v] = true
	switch x := v.(type) {
	case *ssa.Call:
		sc := ir.StaticCallee(x)
		if sc == validate {
			return true
		}
		if sc != nil && c.P.IsLib(sc) && sc.Blocks != nil {
			for _, b := range sc.Blocks {
				if ret, ok := b.Instrs[len(b.Instrs)-1].(*ssa.Return); ok {
					for _, res := range ir.Results(ret) {
						if derivesFromValidate(c, validate, sc, res, d+1, seen) {
							return true
						}
					}
				}
			}
		}
		for _, a := range x.Call.Args {
			if derivesFromValidate(c, validate, fn, a, d+1, seen) {
				return true
			}
		}
	case *ssa.Alloc:
		for _, r := range *x.Referrers() {
			if st, ok := r.(*ssa.Store); ok && st.Addr == ssa.Value(x) && derivesFromValidate(c, validate, fn, st.Val, d+1, seen) {
				return true
			}
		}
	case *ssa.UnOp:
		return derivesFromValidate(c, validate, fn, x.X, d+1, seen)
	case *ssa.Extract:
		return derivesFromValidate(c, validate, fn, x.Tuple, d+1, seen)
	case *ssa.MakeInterface:
		return derivesFromValidate(c, validate, fn, x.X, d+1, seen)
	case *ssa.ChangeType:
		return derivesFromValidate(c, validate, fn, x.X, d+1, seen)
	case *ssa.Phi:
		for _, e := range x.Edges {
			if derivesFromValidate(c, validate, fn, e, d+1, seen) {
				return true
			}
		}
	case *ssa.Parameter:
		idx := -1
		for i, q := range fn.Params {
			if q == x {
				idx = i
			}
		}
		n := 0
		for _, e := range ir.Callers(c.G, fn) {
			if e.Site == nil || !c.P.IsLib(e.Caller.Func) {
				continue
			}
			args := e.Site.Common().Args
			off := 0
			if e.Site.Common().IsInvoke() {
				off = 1
			}
			if idx-off < 0 || idx-off >= len(args) {
				continue
			}
			n++
			if !derivesFromValidate(c, validate, e.Caller.Func, args[idx-off], d+1, seen) {
				return false
			}
		}
		return n > 0
	}
	return false
}
