package rules

import (
	"golang.org/x/tools/go/ssa"

	"verif/checker/ir"
)

// lineReader describes a client function that parses SSE lines ("data:" prefix test) from a peer stream.
type lineReader struct {
	fn       *ssa.Function
	scanner  *ssa.Call // bufio.NewScanner call, if the lines come from a Scanner
	limited  bool      // Scanner without Buffer(): 64 KiB token limit; with Buffer(): its max
	perCall  bool      // returns the answer of one call (*json.RawMessage result)
	readerOK bool      // lines come from a bufio.Reader (unbounded)
}

// sseLineReaders finds the functions that split a peer stream into SSE lines.
func sseLineReaders(c *Ctx) []lineReader {
	var out []lineReader
	// field parsers: functions testing a line for the "data:" prefix
	parser := map[*ssa.Function]bool{}
	for _, fn := range c.P.LibFns {
		ir.EachCall(fn, func(call ssa.CallInstruction) {
			switch ir.CallName(call) {
			case "strings.HasPrefix", "strings.CutPrefix", "strings.TrimPrefix":
				if s, ok := ir.ConstStr(call.Common().Args[1]); ok && (s == "data:" || s == "data: ") {
					parser[fn] = true
				}
			}
		})
	}
	for _, fn := range c.P.LibFns {
		// a line reader parses the fields itself, or reads the lines and hands each to a field parser
		parses := parser[fn]
		if !parses {
			reads, calls := false, false
			ir.EachCall(fn, func(call ssa.CallInstruction) {
				switch ir.CallName(call) {
				case "(*bufio.Scanner).Scan", "(*bufio.Reader).ReadString", "(*bufio.Reader).ReadBytes", "(*bufio.Reader).ReadLine":
					reads = true
				}
				if sc := ir.StaticCallee(call); sc != nil && parser[sc] {
					calls = true
				}
			})
			parses = reads && calls
		}
		if !parses {
			continue
		}
		if !clientSide(c, fn) {
			continue
		}
		lr := lineReader{fn: fn}
		ir.EachInstr(fn, func(_ *ssa.BasicBlock, _ int, in ssa.Instruction) {
			call, ok := in.(*ssa.Call)
			if !ok {
				return
			}
			switch ir.CallName(call) {
			case "bufio.NewScanner":
				lr.scanner = call
				lr.limited = true
				for _, r := range *call.Referrers() {
					if rc, ok := r.(*ssa.Call); ok && ir.CallName(rc) == "(*bufio.Scanner).Buffer" {
						if max, ok := ir.ConstInt(rc.Call.Args[2]); ok && max >= 1<<30 {
							lr.limited = false // a limit of a gigabyte or more is treated as no limit
						}
					}
				}
			case "(*bufio.Reader).ReadString", "(*bufio.Reader).ReadBytes", "(*bufio.Reader).ReadLine", "(*bufio.Reader).ReadSlice":
				lr.readerOK = true
			}
		})
		res := fn.Signature.Results()
		for i := 0; i < res.Len(); i++ {
			if ir.TypeStr(res.At(i).Type()) == "*encoding/json.RawMessage" {
				lr.perCall = true
			}
		}
		out = append(out, lr)
	}
	return out
}
