package rules

import (
	"go/types"
	"sort"
	"strings"
)

// FieldGuard summarises how one mutable shared field is protected.
type FieldGuard struct {
	Field    string
	Owner    string
	OwnerT   *types.Named
	Accesses []Access // non-init, non-local accesses
	Writes   int
	Guard    string // designated lock ("" when no access holds any lock)
	Cands    map[string]int
}

// GuardTable groups the accesses of every field that is written after construction and infers the
// designated guard: the lock held at the largest number of its accesses (ties: the lock owned by
// the same struct, then lexicographic). The inference only *names* the guard; the rule that uses
// it demands that every access holds it, so a single deviating access is reported.
func GuardTable(c *Ctx, accs []Access) []*FieldGuard {
	by := map[string]*FieldGuard{}
	for _, a := range accs {
		if a.Init || a.Local {
			continue
		}
		g := by[a.Field]
		if g == nil {
			g = &FieldGuard{Field: a.Field, Owner: a.Owner, OwnerT: a.OwnerT, Cands: map[string]int{}}
			by[a.Field] = g
		}
		g.Accesses = append(g.Accesses, a)
		if a.Write {
			g.Writes++
		}
		for k := range a.Locks {
			g.Cands[k]++
		}
	}
	var out []*FieldGuard
	for _, g := range by {
		if g.Writes == 0 {
			continue // never written after construction: immutable, no guard needed
		}
		best, bestN := "", 0
		keys := make([]string, 0, len(g.Cands))
		for k := range g.Cands {
			keys = append(keys, k)
		}
		sort.Strings(keys)
		for _, k := range keys {
			n := g.Cands[k]
			own := strings.HasPrefix(k, g.Owner+".")
			bestOwn := strings.HasPrefix(best, g.Owner+".")
			if n > bestN || (n == bestN && own && !bestOwn) {
				best, bestN = k, n
			}
		}
		g.Guard = best
		out = append(out, g)
	}
	sort.Slice(out, func(i, j int) bool { return out[i].Field < out[j].Field })
	return out
}

// accessConstruct is the stable key of one access obligation: field, function, kind and ordinal of
// that kind within the function (never a line number).
func accessConstructs(g *FieldGuard) []string {
	n := map[string]int{}
	out := make([]string, len(g.Accesses))
	for i, a := range g.Accesses {
		k := g.Field + " in " + fname(a.Fn) + " [" + kindClass(a) + "]"
		n[k]++
		if n[k] > 1 {
			k = sprintf("%s#%d", k, n[k])
		}
		out[i] = k
	}
	return out
}

func kindClass(a Access) string {
	if a.Write {
		return "write"
	}
	return "read"
}

func init() {
	Registry["DBG-access"] = func(c *Ctx) {
		accs := CollectAccesses(c)
		for _, g := range GuardTable(c, accs) {
			println("FIELD", g.Field, "writes", g.Writes, "guard", g.Guard)
			for _, a := range g.Accesses {
				println("   ", kindClass(a), a.Kind, fname(a.Fn), c.Pos(a.Pos), "locks=", strings.Join(a.Locks.Keys(), ","), "base=", a.Base)
			}
		}
	}
}
