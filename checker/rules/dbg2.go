package rules

import (
	"golang.org/x/tools/go/ssa"
	"strings"

	"verif/checker/ir"
)

func init() {
	Registry["DBG-assert"] = func(c *Ctx) {
		for _, fn := range c.P.LibFns {
			ir.EachInstr(fn, func(_ *ssa.BasicBlock, _ int, in ssa.Instruction) {
				switch x := in.(type) {
				case *ssa.TypeAssert:
					if !x.CommaOk {
						println("ASSERT", fname(fn), c.Pos(x.Pos()), ir.TypeStr(x.AssertedType), "X=", x.X.String())
					}
				case *ssa.Panic:
					println("PANIC", fname(fn), c.Pos(x.Pos()))
				case *ssa.Slice:
					if x.Low != nil || x.High != nil {
						if b, ok := x.X.Type().Underlying().(interface{ Info() int }); ok {
							_ = b
						}
						println("SLICE", fname(fn), c.Pos(x.Pos()), ir.TypeStr(x.X.Type()))
					}
				case *ssa.Go:
					println("GO", fname(fn), c.Pos(x.Pos()), ir.CallName(x))
				case *ssa.Send:
					println("SEND", fname(fn), c.Pos(x.Pos()))
				case *ssa.Select:
					for _, st := range x.States {
						if st.Dir == 1 {
							println("SELECT-SEND", fname(fn), c.Pos(x.Pos()), "blocking=", x.Blocking)
						}
					}
				}
			})
			ir.EachCall(fn, func(call ssa.CallInstruction) {
				if ir.CallName(call) == "builtin.close" {
					println("CLOSE", fname(fn), c.Pos(call.Pos()), call.Common().Args[0].String())
				}
			})
		}
	}
}

func init() {
	Registry["DBG-client"] = func(c *Ctx) {
		for t := range c.clientTypes() {
			println("CLIENT-TYPE", t.Obj().Name())
		}
		for _, fn := range c.P.LibFns {
			f := c.P.File(fn.Pos())
			a, b := strings.Contains(f, "client") || f == "transport_stdio.go" || f == "transport_http.go", clientSide(c, fn)
			if a != b {
				println("DIFF file=", a, "type=", b, fname(fn), c.Pos(fn.Pos()))
			}
		}
	}
}
