package rules

// Thorough adds the deeper tier's work to an already evaluated context; filled in later.
func Thorough(c *Ctx, repo, verif string) {}
