package rules

import (
	"go/types"
	"sort"
	"strings"

	"golang.org/x/tools/go/ssa"

	"verif/checker/flow"
	"verif/checker/ir"
	"verif/checker/lockset"
	"verif/checker/report"
)

// C09 — one message per frame: concurrent writers of one stream never interleave.
//
//	R-field-writer   a writer stored in a field of a struct that declares a mutex (GET stream,
//	                 legacy SSE stream, stdio client stdin) is only written to / flushed / passed
//	                 to a writing function while one common mutex of that struct is held
//	R-shared-writer  a writer handed to a goroutine (legacy SSE pumps, stdio server stdout) is only
//	                 written to under a mutex, and all writers of the same stream agree on it
//	R-frame-atomic   all writes of one function to such a stream lie in one critical section
//	R-payload        the payload spliced into a "data: %s" frame / a stdio line is the result of
//	                 json.Marshal (compact, no raw newline), not MarshalIndent / Encoder / raw text
func init() { Registry["C09"] = checkC09 }

var writeMethods = map[string]bool{"Write": true, "WriteString": true, "WriteHeader": true, "Flush": true, "Encode": true, "ReadFrom": true, "Sync": true}

func isWriterType(t types.Type) bool {
	s := ir.TypeStr(t)
	switch s {
	case "net/http.ResponseWriter", "net/http.Flusher", "io.Writer", "io.WriteCloser", "*encoding/json.Encoder", "*bufio.Writer", "*os.File", "io.ReadWriteCloser", "io.ReadWriter":
		return true
	}
	return false
}

// writeUse: does instruction `in` use value v as a stream being written?
func writeUse(in ssa.Instruction, v ssa.Value) (string, bool) {
	call, ok := in.(ssa.CallInstruction)
	if !ok {
		return "", false
	}
	cc := call.Common()
	if cc.IsInvoke() {
		if cc.Value == v && writeMethods[cc.Method.Name()] {
			return ir.CallName(call), true
		}
	} else if sc := ir.StaticCallee(call); sc != nil && sc.Signature.Recv() != nil && len(cc.Args) > 0 && cc.Args[0] == v && writeMethods[sc.Name()] {
		return ir.CallName(call), true
	}
	args := cc.Args
	for i, a := range args {
		if a != v {
			continue
		}
		if !cc.IsInvoke() {
			if sc := ir.StaticCallee(call); sc != nil && sc.Signature.Recv() != nil && i == 0 {
				// method on the stream itself that is not a write (Close, Header, ...)
				return "", false
			}
		}
		// handed to a function: a write only if what it is received as can be written to (an io.Closer cannot)
		if sig, ok := cc.Value.Type().Underlying().(*types.Signature); ok || cc.IsInvoke() {
			var pt types.Type
			if cc.IsInvoke() {
				if i < cc.Signature().Params().Len() {
					pt = cc.Signature().Params().At(i).Type()
				}
			} else if ok {
				j := i
				if sig.Recv() != nil {
					j = i - 1
				}
				if j >= 0 && j < sig.Params().Len() {
					pt = sig.Params().At(j).Type()
				}
			}
			if it, isIface := typeUnderlyingInterface(pt); isIface && it.NumMethods() > 0 {
				canWrite := false
				for m := 0; m < it.NumMethods(); m++ {
					if writeMethods[it.Method(m).Name()] {
						canWrite = true
					}
				}
				if !canWrite {
					return "", false
				}
			}
		}
		return ir.CallName(call) + "(arg)", true
	}
	return "", false
}

func typeUnderlyingInterface(t types.Type) (*types.Interface, bool) {
	if t == nil {
		return nil, false
	}
	it, ok := t.Underlying().(*types.Interface)
	return it, ok
}

// derived returns v and values derived from it without changing the underlying stream
// (interface conversions, comma-ok assertions to flusher/file interfaces).
func derived(v ssa.Value) []ssa.Value {
	out := []ssa.Value{v}
	seen := map[ssa.Value]bool{v: true}
	for i := 0; i < len(out); i++ {
		refs := out[i].Referrers()
		if refs == nil {
			continue
		}
		for _, r := range *refs {
			var nv ssa.Value
			switch x := r.(type) {
			case *ssa.MakeInterface:
				nv = x
			case *ssa.ChangeInterface:
				nv = x
			case *ssa.ChangeType:
				nv = x
			case *ssa.TypeAssert:
				nv = x
			case *ssa.Extract:
				if _, ok := x.Tuple.(*ssa.TypeAssert); ok && x.Index == 0 {
					nv = x
				}
			case *ssa.Phi:
				nv = x
			}
			if nv != nil && !seen[nv] {
				seen[nv] = true
				out = append(out, nv)
			}
		}
	}
	return out
}

type wuse struct {
	fn    *ssa.Function
	in    ssa.Instruction
	what  string
	locks lockset.State
}

func checkC09(c *Ctx) {
	c.R.Explanation = "Static check that every byte stream shared by concurrent writers is written under one mutex and one frame at a time: " +
		"writers stored in fields of mutex-bearing structs (Streamable GET stream, legacy SSE stream, stdio client stdin) and writers handed to goroutines " +
		"(legacy SSE pumps, stdio server stdout) are discovered from the typed program; every write/flush/pass-to-writer use must hold the stream's mutex " +
		"(must-hold lockset), all uses inside one function lie in one critical section, and frame payloads come from json.Marshal."
	c.R.NotDecided = "kernel pipe atomicity; the POST-SSE response stream, which is shared only if a user handler notifies from several goroutines (not decided: user code); what a custom http.ResponseWriter does"
	c.R.Assumptions = []string{"json.Marshal output contains no raw CR/LF", "type-level lock identity; pointer-to-mutex fields resolved through their unique initialiser"}
	ls := c.Locks()

	// ---- R-field-writer
	type fieldUses struct {
		field string
		owner *types.Named
		uses  []wuse
	}
	byField := map[string]*fieldUses{}
	for _, fn := range c.P.LibFns {
		if c.InitOnly()[fn] {
			continue
		}
		ir.EachInstr(fn, func(_ *ssa.BasicBlock, _ int, in ssa.Instruction) {
			u, ok := in.(*ssa.UnOp)
			if !ok {
				return
			}
			fa, ok := u.X.(*ssa.FieldAddr)
			if !ok {
				return
			}
			key, _, typ, base := ir.FullField(fa)
			owner := ir.FullFieldOwner(fa)
			if key == "" || !isWriterType(typ) || !ir.InLibrary(owner) || !concurrentStruct(owner) {
				return
			}
			if ir.BaseAlloc(base) {
				return
			}
			for _, dv := range derived(u) {
				refs := dv.Referrers()
				if refs == nil {
					continue
				}
				for _, r := range *refs {
					if what, ok := writeUse(r, dv); ok {
						fu := byField[key]
						if fu == nil {
							fu = &fieldUses{field: key, owner: owner}
							byField[key] = fu
						}
						fu.uses = append(fu.uses, wuse{fn, r, what, ls.At(r)})
					}
				}
			}
		})
	}
	var fkeys []string
	for k := range byField {
		fkeys = append(fkeys, k)
	}
	sort.Strings(fkeys)
	for _, k := range fkeys {
		fu := byField[k]
		guard := commonGuard(fu.uses, ir.TypeKey(fu.owner), c)
		n := map[string]int{}
		for _, u := range fu.uses {
			construct := fu.field + " " + u.what + " in " + fname(u.fn)
			n[construct]++
			if n[construct] > 1 {
				construct = sprintf("%s#%d", construct, n[construct])
			}
			if guard == "" {
				c.R.Violate("R-field-writer", construct, c.Pos(u.in.Pos()), sprintf("stream %s is written in %s but no write of it anywhere holds a mutex of %s", fu.field, fname(u.fn), ir.TypeKey(fu.owner)))
				continue
			}
			c.R.Check(u.locks.HasWrite(guard), "R-field-writer", construct, c.Pos(u.in.Pos()),
				"holds "+guard,
				sprintf("%s writes to stream %s via %s without holding %s (held: [%s]); a concurrent writer's frame can interleave", fname(u.fn), fu.field, u.what, guard, strings.Join(u.locks.Keys(), ",")))
		}
	}
	c.R.Min("R-field-writer", 6)

	// ---- R-shared-writer: taint from `go` operands
	type taintKey struct {
		fn  *ssa.Function
		val ssa.Value
	}
	tainted := map[taintKey]string{} // value -> group (spawner)
	var work []taintKey
	add := func(fn *ssa.Function, v ssa.Value, group string) {
		k := taintKey{fn, v}
		if _, ok := tainted[k]; ok {
			return
		}
		tainted[k] = group
		work = append(work, k)
	}
	bind := func(call ssa.CallInstruction, group string) {
		cc := call.Common()
		callee := ir.StaticCallee(call)
		if callee == nil || !c.P.IsLib(callee) {
			return
		}
		for i, a := range cc.Args {
			if isWriterType(a.Type()) && i < len(callee.Params) {
				add(callee, callee.Params[i], group)
			}
		}
		if mc, ok := cc.Value.(*ssa.MakeClosure); ok {
			for i, b := range mc.Bindings {
				if i < len(callee.FreeVars) {
					fv := callee.FreeVars[i]
					// captured by reference: the free variable is a pointer to the cell
					if isWriterType(b.Type()) || isWriterPtr(b.Type()) {
						add(callee, fv, group)
					}
				}
			}
		}
	}
	for _, fn := range c.P.LibFns {
		ir.EachInstr(fn, func(_ *ssa.BasicBlock, _ int, in ssa.Instruction) {
			if g, ok := in.(*ssa.Go); ok {
				bind(g, fname(ir.Outer(fn)))
			}
		})
	}
	var shared []wuse
	groupOf := map[ssa.Instruction]string{}
	for len(work) > 0 {
		k := work[0]
		work = work[1:]
		group := tainted[k]
		vals := derived(k.val)
		// a free variable captured by reference: loads of it are the stream
		if isWriterPtr(k.val.Type()) {
			if refs := k.val.Referrers(); refs != nil {
				for _, r := range *refs {
					if u, ok := r.(*ssa.UnOp); ok {
						vals = append(vals, derived(u)...)
					}
				}
			}
		}
		for _, dv := range vals {
			refs := dv.Referrers()
			if refs == nil {
				continue
			}
			for _, r := range *refs {
				call, ok := r.(ssa.CallInstruction)
				if !ok {
					continue
				}
				callee := ir.StaticCallee(call)
				if callee != nil && c.P.IsLib(callee) {
					// propagate into the library callee
					for i, a := range call.Common().Args {
						if a == dv && i < len(callee.Params) {
							add(callee, callee.Params[i], group)
						}
					}
					if mc, ok := call.Common().Value.(*ssa.MakeClosure); ok {
						for i, b := range mc.Bindings {
							if b == dv && i < len(callee.FreeVars) {
								add(callee, callee.FreeVars[i], group)
							}
						}
					}
					continue
				}
				if what, ok := writeUse(r, dv); ok {
					if _, dup := groupOf[r]; dup {
						continue
					}
					groupOf[r] = group
					shared = append(shared, wuse{k.fn, r, what, ls.At(r)})
				}
			}
		}
		// closures created in a tainted function that capture the tainted value
		for _, anon := range k.fn.AnonFuncs {
			_ = anon
		}
		ir.EachInstr(k.fn, func(_ *ssa.BasicBlock, _ int, in ssa.Instruction) {
			mc, ok := in.(*ssa.MakeClosure)
			if !ok {
				return
			}
			cf, ok := mc.Fn.(*ssa.Function)
			if !ok {
				return
			}
			for i, b := range mc.Bindings {
				for _, dv := range vals {
					if b == dv && i < len(cf.FreeVars) {
						add(cf, cf.FreeVars[i], group)
					}
				}
			}
		})
	}
	groups := map[string][]wuse{}
	for _, u := range shared {
		g := groupOf[u.in]
		groups[g] = append(groups[g], u)
	}
	var gnames []string
	for g := range groups {
		gnames = append(gnames, g)
	}
	sort.Strings(gnames)
	for _, g := range gnames {
		uses := groups[g]
		sort.SliceStable(uses, func(i, j int) bool { return uses[i].in.Pos() < uses[j].in.Pos() })
		guard := commonGuard(uses, "", c)
		n := map[string]int{}
		for _, u := range uses {
			construct := "stream spawned by " + g + ": " + u.what + " in " + fname(u.fn)
			n[construct]++
			if n[construct] > 1 {
				construct = sprintf("%s#%d", construct, n[construct])
			}
			if guard == "" {
				c.R.Violate("R-shared-writer", construct, c.Pos(u.in.Pos()),
					sprintf("%s writes (%s) to a stream that %s shares with goroutines, and no write of that stream holds any mutex: concurrent frames interleave", fname(u.fn), u.what, g))
				continue
			}
			c.R.Check(u.locks.HasWrite(guard), "R-shared-writer", construct, c.Pos(u.in.Pos()), "holds "+guard,
				sprintf("%s writes (%s) to the stream shared by %s without holding %s (held: [%s])", fname(u.fn), u.what, g, guard, strings.Join(u.locks.Keys(), ",")))
		}
	}
	// the process's own stdout: where a spawner's stream IS os.Stdout (handed to it by its library caller), any other
	// library function that writes to os.Stdout directly writes to that same stream and must hold the same mutex
	isStdout := func(v ssa.Value) bool {
		for {
			switch x := v.(type) {
			case *ssa.MakeInterface:
				v = x.X
				continue
			case *ssa.ChangeInterface:
				v = x.X
				continue
			}
			break
		}
		if u, ok := v.(*ssa.UnOp); ok {
			if g, ok := u.X.(*ssa.Global); ok && g.Name() == "Stdout" && g.Pkg != nil && g.Pkg.Pkg.Path() == "os" {
				return true
			}
		}
		return false
	}
	stdoutGuard, stdoutGroup := "", ""
	for _, g := range gnames {
		for _, fn := range c.P.LibFns {
			if fname(ir.Outer(fn)) != g || fn != ir.Outer(fn) {
				continue
			}
			for _, e := range ir.Callers(c.G, fn) {
				if e.Site == nil {
					continue
				}
				for _, a := range e.Site.Common().Args {
					if isStdout(a) {
						stdoutGuard, stdoutGroup = commonGuard(groups[g], "", c), g
					}
				}
			}
		}
	}
	if stdoutGroup != "" {
		for _, fn := range c.P.LibFns {
			cnt := 0
			ir.EachInstr(fn, func(_ *ssa.BasicBlock, _ int, in ssa.Instruction) {
				u, ok := in.(*ssa.UnOp)
				if !ok || !isStdout(u) {
					return
				}
				for _, dv := range derived(u) {
					if dv.Referrers() == nil {
						continue
					}
					for _, r := range *dv.Referrers() {
						what, ok := writeUse(r, dv)
						if !ok {
							continue
						}
						// handing it to the spawner is how the stream is designated, not a write
						if call, ok := r.(ssa.CallInstruction); ok {
							if sc := ir.StaticCallee(call); sc != nil && fname(sc) == stdoutGroup {
								continue
							}
						}
						cnt++
						c.R.Check(stdoutGuard != "" && ls.At(r).HasWrite(stdoutGuard), "R-shared-writer", sprintf("os.Stdout written directly in %s #%d", fname(fn), cnt), c.Pos(r.Pos()),
							"holds "+stdoutGuard,
							sprintf("%s writes (%s) to os.Stdout — the very stream %s serialises with %s — without holding that mutex (held: [%s]): the two writers' lines interleave", fname(fn), what, stdoutGroup, stdoutGuard, strings.Join(ls.At(r).Keys(), ",")))
					}
				}
			})
		}
	}
	c.R.Min("R-shared-writer", 6)
	c.R.Extra["shared_stream_groups"] = gnames

	// ---- R-frame-atomic: per function, all uses of one stream under one acquisition
	frame := map[string][]wuse{}
	for _, k := range fkeys {
		for _, u := range byField[k].uses {
			frame[ir.TypeKey(byField[k].owner)+" in "+fname(u.fn)] = append(frame[ir.TypeKey(byField[k].owner)+" in "+fname(u.fn)], u)
		}
	}
	for _, u := range shared {
		key := "stream of " + groupOf[u.in] + " in " + fname(u.fn)
		frame[key] = append(frame[key], u)
	}
	var frameKeys []string
	for k := range frame {
		frameKeys = append(frameKeys, k)
	}
	sort.Strings(frameKeys)
	for _, k := range frameKeys {
		us := frame[k]
		sites := map[ssa.Instruction]bool{}
		anyHeld := false
		for _, u := range us {
			for _, h := range u.locks {
				if h.Write {
					sites[h.Site] = true
					anyHeld = true
				}
			}
		}
		if !anyHeld {
			continue // reported above
		}
		// select-loops acquire the lock once per arm; the arms are different frames. Require one site per block group:
		ok := true
		byBlockSite := map[*ssa.BasicBlock]map[ssa.Instruction]bool{}
		for _, u := range us {
			b := u.in.Block()
			if byBlockSite[b] == nil {
				byBlockSite[b] = map[ssa.Instruction]bool{}
			}
			for _, h := range u.locks {
				if h.Write {
					byBlockSite[b][h.Site] = true
				}
			}
		}
		for _, s := range byBlockSite {
			if len(s) > 1 {
				ok = false
			}
		}
		// consecutive uses reachable from one another must share the acquisition
		for i := 0; i < len(us) && ok; i++ {
			for j := 0; j < len(us) && ok; j++ {
				if i == j || !sameStraightLine(us[i].in, us[j].in) {
					continue
				}
				if !sameSites(us[i].locks, us[j].locks) {
					ok = false
				}
			}
		}
		c.R.Check(ok, "R-frame-atomic", k, c.Pos(us[0].in.Pos()), sprintf("%d stream uses, one critical section per frame", len(us)),
			"the writes of one frame are split across different critical sections: another writer can get in between")
	}
	c.R.Min("R-frame-atomic", 6)

	checkC09Payload(c)
}

func isWriterPtr(t types.Type) bool {
	p, ok := t.(*types.Pointer)
	return ok && isWriterType(p.Elem())
}

// sameStraightLine: a and b are in the same basic block or b's block is dominated by a's with no
// intervening unlock decision — approximated by "same block or single-successor chain".
func sameStraightLine(a, b ssa.Instruction) bool {
	if a.Block() == b.Block() {
		return true
	}
	x := a.Block()
	for i := 0; i < 6; i++ {
		if len(x.Succs) != 1 {
			return false
		}
		x = x.Succs[0]
		if len(x.Preds) != 1 {
			return false
		}
		if x == b.Block() {
			return true
		}
	}
	return false
}

func sameSites(a, b lockset.State) bool {
	for k, ha := range a {
		if !ha.Write {
			continue
		}
		hb, ok := b[k]
		if !ok || hb.Site != ha.Site {
			return false
		}
	}
	return true
}

// commonGuard picks the exclusive lock held at most uses (preferring one owned by ownerKey).
func commonGuard(uses []wuse, ownerKey string, c *Ctx) string {
	cnt := map[string]int{}
	for _, u := range uses {
		for k, h := range u.locks {
			if h.Write {
				cnt[k]++
			}
		}
	}
	best, bestN := "", 0
	var keys []string
	for k := range cnt {
		keys = append(keys, k)
	}
	sort.Strings(keys)
	for _, k := range keys {
		own := ownerKey != "" && strings.HasPrefix(k, ownerKey+".")
		bestOwn := ownerKey != "" && strings.HasPrefix(best, ownerKey+".")
		if cnt[k] > bestN || (cnt[k] == bestN && own && !bestOwn) {
			best, bestN = k, cnt[k]
		}
	}
	return best
}

// originCall follows a value back to the call that produced it (through tuple extraction,
// conversions and single-source phis).
func originCall(v ssa.Value) *ssa.Call {
	for i := 0; i < 10; i++ {
		switch x := v.(type) {
		case *ssa.Call:
			return x
		case *ssa.Extract:
			v = x.Tuple
		case *ssa.Convert:
			v = x.X
		case *ssa.ChangeType:
			v = x.X
		case *ssa.MakeInterface:
			v = x.X
		case *ssa.Slice:
			v = x.X
		case *ssa.Phi:
			var only ssa.Value
			for _, e := range x.Edges {
				if only == nil {
					only = e
				} else if e != only {
					return nil
				}
			}
			v = only
		default:
			return nil
		}
	}
	return nil
}

// c09FormatStrings: a frame must never be used as a format string — fmt.Fprintf(w, frame) re-interprets every '%' of
// the payload ("50% done" becomes "50%!d(MISSING)one"). Every Fprintf whose destination is a stream has a constant format.
func c09FormatStrings(c *Ctx, rule string) {
	n := 0
	for _, fn := range c.P.LibFns {
		ir.EachCall(fn, func(call ssa.CallInstruction) {
			if ir.CallName(call) != "fmt.Fprintf" {
				return
			}
			args := call.Common().Args
			if len(args) < 2 {
				return
			}
			n++
			_, isConst := ir.ConstStr(args[1])
			if prm, isParam := args[1].(*ssa.Parameter); isParam {
				// a printf-style wrapper: the formats are what its callers write
				isConst = true
				var judge func(f *ssa.Function, p *ssa.Parameter, d int)
				judge = func(f *ssa.Function, p *ssa.Parameter, d int) {
					idx := -1
					for i, q := range f.Params {
						if q == p {
							idx = i
						}
					}
					for _, e := range ir.Callers(c.G, f) {
						if e.Site == nil || !c.P.IsLib(e.Caller.Func) || idx < 0 {
							continue
						}
						cargs := e.Site.Common().Args
						ai := idx
						if e.Site.Common().IsInvoke() {
							ai--
						}
						if ai < 0 || ai >= len(cargs) {
							continue
						}
						if _, ok := ir.ConstStr(cargs[ai]); ok {
							continue
						}
						if p2, ok := cargs[ai].(*ssa.Parameter); ok && d < 2 {
							judge(e.Caller.Func, p2, d+1)
							continue
						}
						n++
						c.R.Violate(rule, "format handed to "+fname(f)+" by "+fname(e.Caller.Func), c.Pos(e.Site.Pos()),
							sprintf("%s passes a computed string as the FORMAT of the printf-style writer %s (which hands it to fmt.Fprintf on a stream): any '%%' in the payload is re-interpreted as a verb and the frame arrives mangled", fname(e.Caller.Func), fname(f)))
					}
				}
				judge(fn, prm, 0)
			}
			c.R.Check(isConst, rule, "format of Fprintf in "+fname(fn), c.Pos(call.Pos()), "constant format string",
				sprintf("%s passes a computed string as the FORMAT of fmt.Fprintf to a stream: any '%%' in the payload is re-interpreted as a verb and the frame arrives mangled", fname(fn)))
		})
	}
	if n == 0 {
		c.R.Hold(rule, "no Fprintf to a stream", "", "frames are written with Fprint/Write")
	}
}

func checkC09Payload(c *Ctx) {
	c09FormatStrings(c, "R-payload")
	poolAliasRule(c, "R-frame-owned")
	poolResetRule(c, "R-pool-reset")
	c09NoWriteDeadline(c, "R-frame-complete")
	c09EncoderFramed(c, "R-frame-terminated")
	c10OneResponder(c, "R-one-responder")
	c09DataLineWhole(c, "R-data-line-whole")
	// a bufio.Scanner at its default token limit silently stops at the first line of 64 KiB: a frame split (or read)
	// with one loses every message of that size
	scannersBounded(c, c.P.LibFns, "R-scanner-bounded")
	c09FrameAtomic(c, "R-frame-atomic")
	timerCallbacksDoNotWrite(c, "R-timer-writes")
	c09PublishAfterHeader(c, "R-publish-after-header")
	c09HandlerResultReturned(c, "R-handler-result-returned")
	// (a) fmt.Fprintf(w, "...data: %s...", payload): payload must come from json.Marshal
	// (b) functions that write a payload followed by "\n" to an io.Writer param (stdio line writer): payload from json.Marshal
	for _, fn := range c.P.LibFns {
		ir.EachCall(fn, func(call ssa.CallInstruction) {
			name := ir.CallName(call)
			if name != "fmt.Fprintf" {
				return
			}
			args := call.Common().Args
			if len(args) < 3 {
				return
			}
			format, ok := ir.ConstStr(args[1])
			if !ok || !strings.Contains(format, "data: %s") {
				return
			}
			// variadic slice: find the stores into the backing array
			payloads := variadicElems(args[2])
			idx := verbIndex(format, "data: %s")
			construct := "data-frame payload in " + fname(fn)
			if idx < 0 || idx >= len(payloads) {
				c.R.Add(reportUndecided("R-payload", construct, c.Pos(call.Pos()), "cannot locate the payload operand"))
				return
			}
			oc := originCall(payloads[idx])
			okm := oc != nil && ir.CallName(oc) == "encoding/json.Marshal"
			if !okm && splitOnNewline(payloads[idx]) {
				okm = true // an element of strings.Split(x, "\n"): newline-free by construction
			}
			// string parameters (already formatted upstream) are followed to their callers' arguments
			if !okm {
				if p, isParam := ir.Unwrap(payloads[idx]).(*ssa.Parameter); isParam {
					okm, _ = paramFromMarshalOrConstLine(c, fn, p)
				}
			}
			c.R.Check(okm, "R-payload", construct, c.Pos(call.Pos()), "payload originates from json.Marshal / a single-line value",
				sprintf("the value spliced into the \"data: %%s\" frame in %s does not originate from encoding/json.Marshal: a raw newline would split the frame", fname(fn)))
		})
	}
	// stdio line writers: function with io.Writer param that calls Write(x) then Write("\n")
	for _, fn := range c.P.LibFns {
		var writes []*ssa.Call
		ir.EachInstr(fn, func(_ *ssa.BasicBlock, _ int, in ssa.Instruction) {
			call, ok := in.(*ssa.Call)
			if !ok || !call.Call.IsInvoke() || call.Call.Method.Name() != "Write" {
				return
			}
			if _, isParam := call.Call.Value.(*ssa.Parameter); !isParam {
				return
			}
			writes = append(writes, call)
		})
		if len(writes) < 2 {
			continue
		}
		nl := false
		var payload *ssa.Call
		for _, w := range writes {
			if cv, ok := w.Call.Args[0].(*ssa.Convert); ok {
				if s, ok := ir.ConstStr(cv.X); ok && s == "\n" {
					nl = true
					continue
				}
			}
			if sl, ok := w.Call.Args[0].(*ssa.Slice); ok {
				_ = sl
			}
			payload = w
		}
		if !nl || payload == nil {
			continue
		}
		oc := originCall(payload.Call.Args[0])
		construct := "line payload in " + fname(fn)
		if prm, isParam := payload.Call.Args[0].(*ssa.Parameter); isParam {
			// the line is handed in by the callers: every one of them must pass the result of json.Marshal
			ok, why := paramFromMarshalOrConstLine(c, fn, prm)
			c.R.Check(ok, "R-payload", construct, c.Pos(payload.Pos()), "every caller passes the result of json.Marshal",
				sprintf("%s writes a newline-terminated line handed in by its callers, and %s", fname(fn), why))
			continue
		}
		c.R.Check((oc != nil && ir.CallName(oc) == "encoding/json.Marshal") || allMarshal(payload.Call.Args[0]), "R-payload", construct, c.Pos(payload.Pos()),
			"line payload originates from json.Marshal", sprintf("%s writes a newline-terminated line whose payload does not come from json.Marshal", fname(fn)))
	}
	c.R.Min("R-payload", 2)
}

func reportUndecided(rule, construct, pos, detail string) report.Obligation {
	return report.Obligation{Rule: rule, Construct: construct, Status: "undecided", Pos: pos, Detail: detail, NonTrivial: true}
}

// variadicElems returns the values stored into the backing array of a variadic []interface{} arg.
func variadicElems(v ssa.Value) []ssa.Value {
	sl, ok := v.(*ssa.Slice)
	if !ok {
		return nil
	}
	al, ok := sl.X.(*ssa.Alloc)
	if !ok {
		return nil
	}
	elems := map[int64]ssa.Value{}
	max := int64(-1)
	for _, r := range *al.Referrers() {
		ia, ok := r.(*ssa.IndexAddr)
		if !ok {
			continue
		}
		idx, ok := ir.ConstInt(ia.Index)
		if !ok {
			continue
		}
		for _, rr := range *ia.Referrers() {
			if st, ok := rr.(*ssa.Store); ok {
				elems[idx] = st.Val
				if idx > max {
					max = idx
				}
			}
		}
	}
	out := make([]ssa.Value, max+1)
	for i := range out {
		out[i] = elems[int64(i)]
	}
	return out
}

// verbIndex returns which formatting verb (0-based) the occurrence of `needle` ends with.
func verbIndex(format, needle string) int {
	pos := strings.Index(format, needle)
	if pos < 0 {
		return -1
	}
	n := 0
	for i := 0; i < pos+len(needle)-2; i++ {
		if format[i] == '%' {
			if i+1 < len(format) && format[i+1] == '%' {
				i++
				continue
			}
			n++
		}
	}
	return n
}

// paramFromMarshalOrConstLine: every caller passes a json.Marshal result (possibly converted) or a
// constant without newline for parameter p of fn.
// allMarshal: one json.Marshal result, or — after a fallback encoding of an error answer — a merge of Marshal results only.
func allMarshal(v ssa.Value) bool {
	seen := map[ssa.Value]bool{}
	var walk func(v ssa.Value) bool
	walk = func(v ssa.Value) bool {
		if seen[v] {
			return true
		}
		seen[v] = true
		if phi, ok := v.(*ssa.Phi); ok {
			for _, e := range phi.Edges {
				if !walk(e) {
					return false
				}
			}
			return len(phi.Edges) > 0
		}
		o := originCall(v)
		return o != nil && ir.CallName(o) == "encoding/json.Marshal"
	}
	return walk(v)
}

func paramFromMarshalOrConstLine(c *Ctx, fn *ssa.Function, p *ssa.Parameter) (bool, string) {
	idx := -1
	for i, q := range fn.Params {
		if q == p {
			idx = i
		}
	}
	if idx < 0 {
		return false, ""
	}
	edges := ir.Callers(c.G, fn)
	if len(edges) == 0 {
		return false, ""
	}
	for _, e := range edges {
		if e.Site == nil || !c.P.IsLib(e.Caller.Func) {
			return false, ""
		}
		args := e.Site.Common().Args
		if idx >= len(args) {
			return false, ""
		}
		a := args[idx]
		if s, ok := ir.ConstStr(a); ok && !strings.ContainsAny(s, "\r\n") {
			continue
		}
		if oc := originCall(a); oc != nil && ir.CallName(oc) == "encoding/json.Marshal" {
			continue
		}
		if allMarshal(a) {
			continue
		}
		// a value that is itself a parameter or built from a session-id generator: accept only strings
		// produced by library helpers that build URLs (no payload): not a JSON payload → out of scope
		if _, isStr := a.Type().Underlying().(*types.Basic); isStr {
			if oc := originCall(a); oc != nil && c.P.IsLib(ir.StaticCallee(oc)) {
				continue
			}
		}
		return false, ""
	}
	return true, ""
}

// splitOnNewline: v is an element of the result of strings.Split(_, "\n").
func splitOnNewline(v ssa.Value) bool {
	v = ir.Unwrap(v)
	u, ok := v.(*ssa.UnOp)
	if !ok {
		return false
	}
	ia, ok := u.X.(*ssa.IndexAddr)
	if !ok {
		return false
	}
	oc := originCall(ia.X)
	if oc == nil || ir.CallName(oc) != "strings.Split" || len(oc.Call.Args) != 2 {
		return false
	}
	sep, ok := ir.ConstStr(oc.Call.Args[1])
	return ok && sep == "\n"
}

// streamWriteLocked re-states C09's R-field-writer under another rule name for properties that need
// "delivery on a session's stream holds that stream's own write lock" (C05): every write use of a writer
// kept in a field of a mutex-bearing record holds the record's designated mutex exclusively.
type streamFieldUses struct {
	owner *types.Named
	uses  []wuse
}

// streamWrites: the write uses of writers kept in a field of a mutex-bearing library record, by field, each with the
// locks held at it.
func streamWrites(c *Ctx, serverOnly bool) map[string]*streamFieldUses {
	ls := c.Locks()
	by := map[string]*streamFieldUses{}
	for _, fn := range c.P.LibFns {
		if c.InitOnly()[fn] || (serverOnly && clientSide(c, fn)) {
			continue
		}
		ir.EachInstr(fn, func(_ *ssa.BasicBlock, _ int, in ssa.Instruction) {
			u, ok := in.(*ssa.UnOp)
			if !ok {
				return
			}
			fa, ok := u.X.(*ssa.FieldAddr)
			if !ok {
				return
			}
			key, _, typ, base := ir.FullField(fa)
			owner := ir.FullFieldOwner(fa)
			if key == "" || !isWriterType(typ) || !ir.InLibrary(owner) || !concurrentStruct(owner) || ir.BaseAlloc(base) {
				return
			}
			for _, dv := range derived(u) {
				if dv.Referrers() == nil {
					continue
				}
				for _, r := range *dv.Referrers() {
					if what, ok := writeUse(r, dv); ok {
						if by[key] == nil {
							by[key] = &streamFieldUses{owner: owner}
						}
						by[key].uses = append(by[key].uses, wuse{fn, r, what, ls.At(r)})
					}
				}
			}
		})
	}
	return by
}

// streamWriteNotUnder: no write on a session's stream happens while lock (a table lock shared by all sessions) is held,
// shared or exclusive: a write blocks for as long as the peer does not read, and everything that needs the table —
// registering the session's next stream, every other session's sends behind a waiting writer — would block with it.
func streamWriteNotUnder(c *Ctx, rule, lock, what string) int {
	by := streamWrites(c, true)
	var keys []string
	for k := range by {
		keys = append(keys, k)
	}
	sort.Strings(keys)
	n := 0
	// ... nor is, while that lock is held, a lock acquired that senders hold across a stream write (a stream's own write
	// lock): whoever waits for it waits for a peer-paced write, with the table locked for everyone
	pacing := map[string]bool{}
	for _, k := range keys {
		for _, u := range by[k].uses {
			for _, h := range u.locks.Keys() {
				if h != lock && !strings.HasPrefix(h, "path:") {
					pacing[h] = true
				}
			}
		}
	}
	if len(pacing) > 0 {
		ls := c.Locks()
		nAcq := 0
		for _, fn := range c.P.LibFns {
			if clientSide(c, fn) {
				continue
			}
			ir.EachInstr(fn, func(_ *ssa.BasicBlock, _ int, in ssa.Instruction) {
				op, ok := ls.Classify(in)
				if !ok || !op.Acquire || !pacing[op.Key] {
					return
				}
				nAcq++
				held := ls.At(in)
				if held.Has(lock) {
					c.R.Violate(rule, sprintf("%s acquired under the %s lock in %s", op.Key, what, fname(fn)), c.Pos(in.Pos()),
						sprintf("%s acquires %s — a lock that senders hold for the whole of a write to a peer's stream — while it holds %s, the lock of the %s: when the peer of that stream has stopped reading, the acquisition waits for the stalled write with the table locked, the session's new stream is never registered and no session's sends proceed", fname(fn), op.Key, lock, what))
				}
			})
		}
		nestedEdges, _ := nestedThroughCallees(c, c.P.LibFns)
		for _, e := range nestedEdges {
			if e.from == lock && pacing[e.to] {
				c.R.Violate(rule, sprintf("%s acquired under the %s lock through a call in %s", e.to, what, fname(e.at.Parent())), c.Pos(e.at.Pos()),
					sprintf("%s calls, while it holds %s (the lock of the %s), a function that acquires %s — a lock senders hold across a write to a peer's stream: a stalled peer keeps the table locked for everyone", fname(e.at.Parent()), lock, what, e.to))
			}
		}
		c.R.Hold(rule, "write-pacing locks are not acquired under the "+what+" lock", "", sprintf("%d acquisitions of %d lock(s) held across stream writes examined", nAcq, len(pacing)))
	}
	for _, k := range keys {
		cnt := map[string]int{}
		for _, u := range by[k].uses {
			n++
			construct := k + " " + u.what + " in " + fname(u.fn)
			cnt[construct]++
			if cnt[construct] > 1 {
				construct = sprintf("%s#%d", construct, cnt[construct])
			}
			c.R.Check(!u.locks.Has(lock), rule, construct, c.Pos(u.in.Pos()), "the "+what+" lock is not held across the stream write",
				sprintf("%s writes to the session stream %s via %s while holding %s, the lock of the %s: a peer that stops reading keeps that lock held, so the session's next stream cannot be registered and, behind the waiting writer, no session's sends proceed", fname(u.fn), k, u.what, lock, what))
		}
	}
	return n
}

func streamWriteLocked(c *Ctx, rule string, serverOnly bool) int {
	by := streamWrites(c, serverOnly)
	var keys []string
	for k := range by {
		keys = append(keys, k)
	}
	sort.Strings(keys)
	n := 0
	for _, k := range keys {
		f := by[k]
		guard := commonGuard(f.uses, ir.TypeKey(f.owner), c)
		cnt := map[string]int{}
		for _, u := range f.uses {
			n++
			construct := k + " " + u.what + " in " + fname(u.fn)
			cnt[construct]++
			if cnt[construct] > 1 {
				construct = sprintf("%s#%d", construct, cnt[construct])
			}
			c.R.Check(guard != "" && u.locks.HasWrite(guard), rule, construct, c.Pos(u.in.Pos()), "holds "+guard,
				sprintf("%s writes to the session stream %s via %s without holding the stream's own write lock %s (held: [%s]): frames sent to one session concurrently interleave and are lost", fname(u.fn), k, u.what, guard, strings.Join(u.locks.Keys(), ",")))
		}
	}
	return n
}

// c09NoWriteDeadline: a frame is written completely or the stream is given up. A write deadline on a stream that
// carries frames (SetWriteDeadline / SetDeadline on the pipe, file or connection) makes a write stop in the middle of a
// frame when the peer is slow; the unterminated prefix stays in the stream and the next frame is appended to it.
func c09NoWriteDeadline(c *Ctx, rule string) {
	n := 0
	for _, fn := range c.P.LibFns {
		ir.EachCall(fn, func(call ssa.CallInstruction) {
			cc := call.Common()
			name := ""
			if cc.IsInvoke() {
				name = cc.Method.Name()
			} else if sc := ir.StaticCallee(call); sc != nil {
				name = sc.Name()
			}
			if name != "SetWriteDeadline" && name != "SetDeadline" {
				return
			}
			if _, isDefer := call.(*ssa.Defer); isDefer {
				return
			}
			n++
			c.R.Violate(rule, "write deadline set in "+fname(fn), c.Pos(call.Pos()),
				sprintf("%s puts a write deadline on a stream that carries frames: a write that times out leaves an unterminated part of its frame in the stream, and the next message is appended to it (two messages in one frame, then a frame with no message)", fname(fn)))
		})
	}
	if n == 0 {
		c.R.Hold(rule, "no write deadline on a frame-carrying stream", "", "a slow peer blocks the writer; it does not truncate a frame")
	}
}

// c09EncoderFramed (R-frame-terminated): a stream that carries one JSON message per line through a json.Encoder
// (Encode appends the newline) is line-framed for every writer. A raw Write on the same stream has to end its frame
// itself: the bytes of json.Marshal written as they are leave the line open, and the next message is glued onto it.
// The stream is found, not named: the writer a library function hands to json.NewEncoder and also keeps in a member.
func c09EncoderFramed(c *Ctx, rule string) {
	framed := map[string]bool{}
	for _, fn := range c.P.LibFns {
		ir.EachCall(fn, func(call ssa.CallInstruction) {
			if ir.CallName(call) != "encoding/json.NewEncoder" || len(call.Common().Args) != 1 {
				return
			}
			w := call.Common().Args[0]
			if f, _, ok := ir.LoadedField(w); ok {
				framed[f.Key()] = true
				return
			}
			// the same value is stored into a member (constructor: &T{stdin: stdin, encoder: json.NewEncoder(stdin)})
			src := w
			if mi, ok := w.(*ssa.MakeInterface); ok {
				src = mi.X
			}
			if ci, ok := w.(*ssa.ChangeInterface); ok {
				src = ci.X
			}
			ir.EachInstr(fn, func(_ *ssa.BasicBlock, _ int, in ssa.Instruction) {
				st, ok := in.(*ssa.Store)
				if !ok {
					return
				}
				v := st.Val
				if mi, ok := v.(*ssa.MakeInterface); ok {
					v = mi.X
				}
				if ci, ok := v.(*ssa.ChangeInterface); ok {
					v = ci.X
				}
				if v != src && st.Val != w {
					return
				}
				if fa, ok := st.Addr.(*ssa.FieldAddr); ok {
					if key, _, _, _ := ir.FullField(fa); key != "" {
						framed[key] = true
					}
				}
			})
		})
	}
	var keys []string
	for k := range framed {
		keys = append(keys, k)
	}
	sort.Strings(keys)
	c.R.Extra["encoder_framed_streams"] = keys
	endsLine := func(v ssa.Value) bool {
		v = unspill(v)
		if s, ok := ir.ConstStr(v); ok {
			return strings.HasSuffix(s, "\n")
		}
		if cv, ok := v.(*ssa.Convert); ok {
			if s, ok := ir.ConstStr(cv.X); ok {
				return strings.HasSuffix(s, "\n")
			}
		}
		if call, ok := v.(*ssa.Call); ok {
			if b, ok := call.Call.Value.(*ssa.Builtin); ok && b.Name() == "append" && len(call.Call.Args) == 2 {
				els := variadicElems(call.Call.Args[1])
				if len(els) > 0 && els[len(els)-1] != nil {
					if n, ok := ir.ConstInt(els[len(els)-1]); ok && n == '\n' {
						return true
					}
				}
				if s, ok := ir.ConstStr(call.Call.Args[1]); ok {
					return strings.HasSuffix(s, "\n")
				}
			}
		}
		return false
	}
	n := 0
	for _, fn := range c.P.LibFns {
		cnt := 0
		ir.EachCall(fn, func(call ssa.CallInstruction) {
			cc := call.Common()
			if !cc.IsInvoke() || (cc.Method.Name() != "Write" && cc.Method.Name() != "WriteString") || len(cc.Args) != 1 {
				return
			}
			f, _, ok := ir.LoadedField(cc.Value)
			if !ok || !framed[f.Key()] {
				return
			}
			n++
			cnt++
			c.R.Check(endsLine(cc.Args[0]), rule, sprintf("raw write #%d on the line-framed stream %s in %s", cnt, f.Key(), fname(fn)), c.Pos(call.Pos()),
				"the bytes written end with a newline",
				sprintf("%s writes to %s — a stream framed one JSON message per line by a json.Encoder — bytes that are not known to end with '\\n' (e.g. the result of json.Marshal as it is): the frame stays open and the peer reads it glued to the next message", fname(fn), f.Key()))
		})
	}
	if n == 0 {
		c.R.Hold(rule, "no raw write on a stream framed by a json.Encoder", "", sprintf("%d such stream(s): %v", len(keys), keys))
	}
	if len(keys) == 0 {
		c.R.Break("%s: no stream framed by a json.Encoder found (expected the stdio client's stdin)", rule)
	}
}

// ---------------------------------------------------------------- R-data-line-whole
// An SSE receiver joins the data lines of one event with a newline. A function that emits "data: " lines may therefore
// start a new data line only where the payload itself has a newline: a payload (a parameter of the function, or a
// piece of it obtained by splitting on "\n") cut by a slice expression at any other offset — a length limit — puts a
// raw newline into the reassembled JSON text, and the message is no longer one JSON-RPC object.
func c09DataLineWhole(c *Ctx, rule string) {
	n := 0
	for _, fn := range c.P.LibFns {
		if clientSide(c, fn) {
			continue
		}
		emits := false
		ir.EachInstr(fn, func(_ *ssa.BasicBlock, _ int, in ssa.Instruction) {
			call, ok := in.(ssa.CallInstruction)
			if !ok {
				return
			}
			for _, a := range call.Common().Args {
				if s, ok := ir.ConstStr(ir.Unwrap(a)); ok && (strings.HasPrefix(s, "data: ") || s == "data" || s == "data:") {
					emits = true // (also through a `writeField(b, "data", line)` helper)
				}
				if cv, ok := a.(*ssa.Convert); ok {
					if s, ok := ir.ConstStr(cv.X); ok && strings.HasPrefix(s, "data: ") {
						emits = true
					}
				}
			}
		})
		if !emits {
			continue
		}
		n++
		// values that are (pieces of) the payload: string / []byte parameters and what is derived from them
		fromParam := func(v ssa.Value) bool {
			seen := map[ssa.Value]bool{}
			var walk func(v ssa.Value, d int) bool
			walk = func(v ssa.Value, d int) bool {
				if v == nil || d > 10 || seen[v] {
					return false
				}
				seen[v] = true
				switch x := v.(type) {
				case *ssa.Parameter:
					return true
				case *ssa.Convert:
					return walk(x.X, d+1)
				case *ssa.Slice:
					return walk(x.X, d+1)
				case *ssa.Phi:
					for _, e := range x.Edges {
						if walk(e, d+1) {
							return true
						}
					}
				case *ssa.UnOp:
					return walk(x.X, d+1)
				case *ssa.IndexAddr:
					return walk(x.X, d+1)
				case *ssa.Index:
					return walk(x.X, d+1)
				case *ssa.Extract:
					return walk(x.Tuple, d+1)
				case *ssa.Next:
					return walk(x.Iter, d+1)
				case *ssa.Range:
					return walk(x.X, d+1)
				case *ssa.Call:
					switch ir.CallName(x) {
					case "strings.Split", "bytes.Split", "strings.ReplaceAll", "bytes.ReplaceAll", "strings.SplitN", "strings.TrimSuffix", "strings.TrimRight":
						return walk(x.Call.Args[0], d+1)
					}
				}
				return false
			}
			return walk(v, 0)
		}
		atNewline := func(v ssa.Value) bool {
			if v == nil {
				return true
			}
			if _, isConst := v.(*ssa.Const); isConst {
				return false
			}
			seen := map[ssa.Value]bool{}
			var walk func(v ssa.Value, d int) bool
			walk = func(v ssa.Value, d int) bool {
				if v == nil || d > 6 || seen[v] {
					return false
				}
				seen[v] = true
				switch x := v.(type) {
				case *ssa.Call:
					nme := ir.CallName(x)
					return strings.HasPrefix(nme, "strings.Index") || strings.HasPrefix(nme, "bytes.Index") || strings.HasPrefix(nme, "strings.LastIndex") || strings.HasPrefix(nme, "bytes.LastIndex")
				case *ssa.BinOp:
					return walk(x.X, d+1) || walk(x.Y, d+1)
				case *ssa.Phi:
					for _, e := range x.Edges {
						if walk(e, d+1) {
							return true
						}
					}
				}
				return false
			}
			return walk(v, 0)
		}
		bad := ""
		ir.EachInstr(fn, func(_ *ssa.BasicBlock, _ int, in ssa.Instruction) {
			sl, ok := in.(*ssa.Slice)
			if !ok || bad != "" {
				return
			}
			switch t := sl.X.Type().Underlying().(type) {
			case *types.Basic:
				if t.Info()&types.IsString == 0 {
					return
				}
			case *types.Slice:
				if b, ok := t.Elem().Underlying().(*types.Basic); !ok || b.Kind() != types.Uint8 {
					return
				}
			default:
				return
			}
			if (sl.Low == nil && sl.High == nil) || !fromParam(sl.X) {
				return
			}
			if atNewline(sl.Low) && atNewline(sl.High) {
				return
			}
			bad = c.Pos(sl.Pos())
		})
		c.R.Check(bad == "", rule, "data lines of "+fname(fn), c.Pos(fn.Pos()), "the payload is divided into data lines only at its own newlines",
			sprintf("%s emits SSE data lines and cuts the payload with a slice expression at %s, at an offset that is not the position of a newline in it (a length limit): the receiver joins data lines with a newline, so a long message arrives with a raw line break inside its JSON text and is not a well-formed JSON-RPC message", fname(fn), bad))
	}
	if n < 1 {
		c.R.Break("%s: only %d functions emitting SSE data lines found", rule, n)
	}
}

// ---------------------------------------------------------------- R-frame-atomic
// A frame is put on the stream only when all of it exists. A function that writes the beginning of a frame ("id: …\n
// data: ") and then encodes the payload straight into the stream (json.NewEncoder(w).Encode) has already committed
// half a frame when the payload turns out to be unencodable: the fallback answer written next is glued to it, and the
// receiver reassembles one event that is no JSON message. The payload is therefore encoded to bytes first; an Encode
// onto a writer is not preceded, in the same function, by another write to that writer.
func c09FrameAtomic(c *Ctx, rule string) {
	n := 0
	for _, fn := range c.P.LibFns {
		if clientSide(c, fn) {
			continue
		}
		ir.EachInstr(fn, func(_ *ssa.BasicBlock, _ int, in ssa.Instruction) {
			enc, ok := in.(*ssa.Call)
			if !ok || ir.CallName(enc) != "(*encoding/json.Encoder).Encode" {
				return
			}
			mk := originCall(enc.Call.Args[0])
			if mk == nil || ir.CallName(mk) != "encoding/json.NewEncoder" {
				return
			}
			w := ir.Unwrap(mk.Call.Args[0])
			if _, isParam := w.(*ssa.Parameter); !isParam {
				if _, _, isField := ir.LoadedField(w); !isField {
					return // a local buffer
				}
			}
			n++
			prefix := ""
			ir.EachInstr(fn, func(_ *ssa.BasicBlock, _ int, x ssa.Instruction) {
				call, ok := x.(*ssa.Call)
				if !ok || call == enc || call == mk || !flow.Reaches(call, enc) || flow.Reaches(enc, call) && flow.InCycle(enc.Block()) {
					return
				}
				writes := false
				switch nm := ir.CallName(call); {
				case nm == "fmt.Fprintf" || nm == "fmt.Fprint" || nm == "fmt.Fprintln" || nm == "io.WriteString":
					writes = ir.Unwrap(call.Call.Args[0]) == w
				case call.Call.IsInvoke() && writeMethods[call.Call.Method.Name()]:
					writes = ir.Unwrap(call.Call.Value) == w
				}
				if writes {
					prefix = c.Pos(call.Pos())
				}
			})
			c.R.Check(prefix == "", rule, "payload encoded onto the stream in "+fname(fn), c.Pos(enc.Pos()), "nothing of the frame is on the stream before the payload is known to encode",
				sprintf("%s writes the beginning of a frame to the stream (at %s) and then encodes the payload directly onto it: when the payload cannot be encoded half a frame is already out, the error answer sent instead is appended to it, and the receiver reassembles one event whose data is not a JSON message", fname(fn), prefix))
		})
	}
	if n == 0 {
		c.R.Hold(rule, "no payload is encoded directly onto a stream after part of its frame", "", "server-side json.Encoder.Encode onto writer parameters / members: none preceded by a write to the same writer")
	}
}
