package rules

import (
	"go/token"
	"go/types"
	"reflect"
	"sort"
	"strings"

	"golang.org/x/tools/go/ssa"

	"verif/checker/flow"
	"verif/checker/ir"
)

// C02 — what a handler returns is what the caller receives (wire fidelity).
//
// The encoder is encoding/json driven by struct tags; the decoder of content items is hand written.
// Their agreement is a finite table comparison:
//
//	R-kind-cover       every Content implementation's "type" tag (the constant its constructor stores) is a
//	                   case of the content decoder's switch
//	R-field-cover      the JSON members of each kind (tags, embedded structs flattened like encoding/json
//	                   does) are all read by the decoder of that kind; same for hand-decoded descriptors
//	R-no-empty-reject  a decoder must not reject (or mis-select on) the empty string for a member whose tag
//	                   has no omitempty: the encoder emits "" for it
//	R-same-type        results decoded with json.Unmarshal are decoded into the very type the server returns
//	R-err-carry        each client operation turns a JSON-RPC error answer into a Go error that carries the
//	                   answer's message
//	R-any-member      an interface{} member of a result is stored as decoded, not narrowed to one Go type
//	R-fresh-buffer    (shared with C01) a reader loop decodes each message into a buffer of its own
//	R-error-envelope  no client transport hands the bare content of an "error" member upwards as the raw answer
//	R-result-untouched the server does not write into the object a registered handler returned
//	R-unbounded-frames the per-call SSE reader imposes no practical line-length limit
func init() { Registry["C02"] = checkC02 }

type jsonMember struct {
	key       string
	omitempty bool
	field     string
}

// jsonMembers flattens the JSON members of struct type t the way encoding/json does.
func jsonMembers(t types.Type, depth int) []jsonMember {
	if p, ok := t.(*types.Pointer); ok {
		t = p.Elem()
	}
	st, ok := t.Underlying().(*types.Struct)
	if !ok || depth > 3 {
		return nil
	}
	var out []jsonMember
	for i := 0; i < st.NumFields(); i++ {
		f := st.Field(i)
		tag := reflect.StructTag(st.Tag(i)).Get("json")
		name, opts, _ := strings.Cut(tag, ",")
		if name == "-" && opts == "" {
			continue
		}
		if f.Anonymous() && name == "" {
			ft := f.Type()
			if p, ok := ft.(*types.Pointer); ok {
				ft = p.Elem()
			}
			if _, isStruct := ft.Underlying().(*types.Struct); isStruct {
				out = append(out, jsonMembers(ft, depth+1)...)
				continue
			}
		}
		if !f.Exported() {
			continue
		}
		if name == "" {
			name = f.Name()
		}
		out = append(out, jsonMember{key: name, omitempty: strings.Contains(","+opts+",", ",omitempty,"), field: f.Name()})
	}
	return out
}

// mapHelpers: functions h(m map[string]any, key string) X that look m[key] up.
func mapHelpers(c *Ctx) map[*ssa.Function]bool {
	out := map[*ssa.Function]bool{}
	for _, fn := range c.P.LibFns {
		if len(fn.Params) != 2 || fn.Signature.Recv() != nil {
			continue
		}
		if _, ok := fn.Params[0].Type().Underlying().(*types.Map); !ok {
			continue
		}
		if b, ok := fn.Params[1].Type().Underlying().(*types.Basic); !ok || b.Kind() != types.String {
			continue
		}
		ir.EachInstr(fn, func(_ *ssa.BasicBlock, _ int, in ssa.Instruction) {
			if lk, ok := in.(*ssa.Lookup); ok && lk.X == fn.Params[0] && lk.Index == fn.Params[1] {
				out[fn] = true
			}
		})
	}
	// wrappers: (map, key) functions that hand both on to a map helper (e.g. extractString -> extractAs[string])
	for iter := 0; iter < 3; iter++ {
		for _, fn := range c.P.LibFns {
			if out[fn] || len(fn.Params) != 2 || fn.Signature.Recv() != nil {
				continue
			}
			ir.EachCall(fn, func(call ssa.CallInstruction) {
				sc := ir.StaticCallee(call)
				if sc == nil || !out[sc] {
					return
				}
				args := call.Common().Args
				if len(args) == 2 && args[0] == ssa.Value(fn.Params[0]) && args[1] == ssa.Value(fn.Params[1]) {
					out[fn] = true
				}
			})
		}
	}
	return out
}

type keyRead struct {
	key   string
	value ssa.Value // the extracted value (helper result / lookup result)
	at    ssa.Instruction
}

// keysRead lists constant map keys a function reads (directly or through map helpers).
func keysRead(fn *ssa.Function, helpers map[*ssa.Function]bool) []keyRead {
	var out []keyRead
	ir.EachInstr(fn, func(_ *ssa.BasicBlock, _ int, in ssa.Instruction) {
		switch x := in.(type) {
		case *ssa.Lookup:
			if _, ok := x.X.Type().Underlying().(*types.Map); ok {
				if k, ok := ir.ConstStr(ir.Unwrap(x.Index)); ok {
					out = append(out, keyRead{k, x, x})
				}
			}
		case *ssa.Call:
			if sc := ir.StaticCallee(x); sc != nil && helpers[sc] && len(x.Call.Args) == 2 {
				if k, ok := ir.ConstStr(x.Call.Args[1]); ok {
					out = append(out, keyRead{k, x, x})
				}
			}
		}
	})
	return out
}

// keysReadDeep: keys read by fn and by the library functions it hands one of its map parameters to.
func keysReadDeep(c *Ctx, fn *ssa.Function, helpers map[*ssa.Function]bool) []keyRead {
	out := keysRead(fn, helpers)
	ir.EachCall(fn, func(call ssa.CallInstruction) {
		sc := ir.StaticCallee(call)
		if sc == nil || !c.P.IsLib(sc) || helpers[sc] {
			return
		}
		for _, a := range call.Common().Args {
			if p, ok := a.(*ssa.Parameter); ok {
				if _, isMap := p.Type().Underlying().(*types.Map); isMap {
					out = append(out, keysRead(sc, helpers)...)
					return
				}
			}
		}
	})
	return out
}

func checkC02(c *Ctx) {
	c.R.Explanation = "Table agreement between the struct-tag driven encoder and the hand-written decoders, computed from the typed program: content kinds (Content implementations and the tag their constructors store) vs. the decoder's switch cases, " +
		"JSON members per kind vs. the constant keys the kind's decoder reads, emptiness tests vs. omitempty, Unmarshal target types vs. the types the server returns, and error-message propagation in the clients."
	c.R.NotDecided = "code-point equality of large strings (trusted encoding/json and bufio), numeric normalisation of structured content, SSE line splitting (see C09 R-payload)"
	c.R.Assumptions = []string{"encoding/json encodes a struct exactly by its tags (embedded structs flattened)"}
	helpers := mapHelpers(c)
	contentI := c.P.RootNamed("Content")
	if contentI == nil {
		c.R.Break("anchor not found: Content interface")
		return
	}
	// ---- kinds and their tags
	type kind struct {
		T   *types.Named
		tag string
	}
	var kinds []kind
	for _, T := range c.P.Implementers(contentI.Underlying().(*types.Interface)) {
		tag := ""
		for _, fn := range c.P.LibFns {
			if fn.Signature.Recv() != nil || fn.Signature.Results().Len() != 1 || !types.Identical(fn.Signature.Results().At(0).Type(), T) || !fn.Object().Exported() {
				continue
			}
			ir.EachInstr(fn, func(_ *ssa.BasicBlock, _ int, in ssa.Instruction) {
				if st, ok := in.(*ssa.Store); ok {
					if f, _, ok := ir.FieldOf(st.Addr); ok && f.Struct == T && f.Name == "Type" {
						if s, ok := ir.ConstStr(st.Val); ok {
							tag = s
						}
					}
				}
			})
		}
		kinds = append(kinds, kind{T, tag})
	}
	if len(kinds) < 4 {
		c.R.Break("found %d Content implementations, expected 4", len(kinds))
	}
	// ---- the content decoder switch
	var sw *ssa.Function
	cases := map[string]*ssa.Function{}
	for _, fn := range c.P.LibFns {
		if fn.Signature.Results().Len() == 0 || !types.Identical(fn.Signature.Results().At(0).Type(), contentI) {
			continue
		}
		// the switched value must be the "type" member
		readsType := false
		for _, kr := range keysRead(fn, helpers) {
			if kr.key == "type" {
				readsType = true
			}
		}
		if !readsType {
			continue
		}
		cs := map[string]*ssa.Function{}
		for _, b := range fn.Blocks {
			if len(b.Instrs) == 0 {
				continue
			}
			ifi, ok := b.Instrs[len(b.Instrs)-1].(*ssa.If)
			if !ok {
				continue
			}
			bin, ok := ifi.Cond.(*ssa.BinOp)
			if !ok || bin.Op != token.EQL {
				continue
			}
			s, ok := ir.ConstStr(bin.Y)
			if !ok {
				continue
			}
			// callee of the case: first library call in the true successor chain
			var callee *ssa.Function
			seen := map[*ssa.BasicBlock]bool{}
			for cur := b.Succs[0]; cur != nil && !seen[cur]; {
				seen[cur] = true
				for _, in := range cur.Instrs {
					if call, ok := in.(*ssa.Call); ok && callee == nil {
						if sc := ir.StaticCallee(call); sc != nil && c.P.IsLib(sc) {
							callee = sc
						}
					}
				}
				if callee == nil && len(cur.Succs) == 1 {
					cur = cur.Succs[0]
				} else {
					cur = nil
				}
			}
			cs[s] = callee
		}
		// the same decision as a table: a package-level map from the "type" tag to the parser, looked up with the tag
		if len(cs) < 2 {
			ir.EachInstr(fn, func(_ *ssa.BasicBlock, _ int, in ssa.Instruction) {
				lk, ok := in.(*ssa.Lookup)
				if !ok {
					return
				}
				ld, ok := lk.X.(*ssa.UnOp)
				if !ok {
					return
				}
				g, ok := ld.X.(*ssa.Global)
				if !ok {
					return
				}
				for _, rows := range c.MapLiteralDispatch() {
					for _, r := range rows {
						mu, ok := r.At.(*ssa.MapUpdate)
						if !ok || r.Target == nil || mu.Map.Referrers() == nil {
							continue
						}
						for _, ref := range *mu.Map.Referrers() {
							if st, ok := ref.(*ssa.Store); ok && st.Addr == ssa.Value(g) && st.Val == mu.Map {
								cs[r.Method] = r.Target
							}
						}
					}
				}
			})
		}
		if len(cs) >= 2 {
			sw, cases = fn, cs
		}
	}
	if sw == nil {
		c.R.Break("content decoder (function returning Content that switches on the \"type\" member) not found")
		return
	}
	var caseNames []string
	for k := range cases {
		caseNames = append(caseNames, k)
	}
	sort.Strings(caseNames)
	c.R.Extra["decoder_switch"] = fname(sw)
	c.R.Extra["decoder_cases"] = caseNames

	decodersChecked := map[*ssa.Function]*types.Named{}
	for _, k := range kinds {
		kn := k.T.Obj().Name()
		if k.tag == "" {
			c.R.Add(reportUndecided("R-kind-cover", kn, "", "the kind's type tag could not be determined from its constructor"))
			continue
		}
		dec, ok := cases[k.tag]
		c.R.Check(ok, "R-kind-cover", kn+" (type \""+k.tag+"\")", c.Pos(k.T.Obj().Pos()), "the decoder has a case for this tag",
			sprintf("a handler can return %s, which is encoded with \"type\":\"%s\", but %s has no case for that tag (cases: %v): the client fails with 'unsupported content type'", kn, k.tag, fname(sw), caseNames))
		if !ok || dec == nil {
			continue
		}
		decodersChecked[dec] = k.T
		read := map[string]bool{"type": true}
		for _, kr := range keysReadDeep(c, dec, helpers) {
			read[kr.key] = true
		}
		for _, m := range jsonMembers(k.T, 0) {
			c.R.Check(read[m.key], "R-field-cover", kn+"."+m.key, c.Pos(dec.Pos()), "read by "+fname(dec),
				sprintf("%s has the JSON member %q (field %s) but its decoder %s never reads it: the value is lost on the way to the caller", kn, m.key, m.field, fname(dec)))
		}
	}
	c.R.Min("R-kind-cover", 4)
	c.R.Min("R-field-cover", 12)

	// resource contents (nested decoder): implementations of ResourceContents vs the function decoding them
	rcI := c.P.RootNamed("ResourceContents")
	if rcI != nil {
		var rdec []*ssa.Function
		for _, fn := range c.P.LibFns {
			if fn.Signature.Results().Len() > 0 && types.Identical(fn.Signature.Results().At(0).Type(), rcI) && len(fn.Params) == 1 {
				if _, isMap := fn.Params[0].Type().Underlying().(*types.Map); isMap {
					rdec = append(rdec, fn)
				}
			}
		}
		// also the positional helper in internal/utils (returns uri, mime, content, isText)
		for _, fn := range c.P.LibFns {
			if fn.Object() != nil && fn.Object().Exported() && len(fn.Params) == 1 && fn.Signature.Results().Len() == 4 {
				if _, isMap := fn.Params[0].Type().Underlying().(*types.Map); isMap {
					rdec = append(rdec, fn)
				}
			}
		}
		for _, d := range rdec {
			read := map[string]bool{}
			for _, part := range staticClosure(c, d, 2) {
				for _, kr := range keysRead(part, helpers) {
					read[kr.key] = true
				}
			}
			for _, T := range c.P.Implementers(rcI.Underlying().(*types.Interface)) {
				decodersChecked[d] = T
				for _, m := range jsonMembers(T, 0) {
					c.R.Check(read[m.key], "R-field-cover", T.Obj().Name()+"."+m.key+" in "+fname(d), c.Pos(d.Pos()), "read by "+fname(d),
						sprintf("%s has the JSON member %q but the decoder %s never reads it", T.Obj().Name(), m.key, fname(d)))
				}
			}
		}
	}
	// hand-decoded descriptors: Tool (decoded by an exported helper reading a map) and CallToolResult
	c02Descriptor(c, helpers, "Tool", []string{"inputSchema", "outputSchema", "annotations", "name", "description"})
	c02Descriptor(c, helpers, "CallToolResult", nil)

	// ---- R-no-empty-reject
	for dec, T := range decodersChecked {
		c02EmptyReject(c, dec, T, helpers)
	}
	c.R.Min("R-no-empty-reject", 4)

	c02SameType(c)
	c02ErrCarry(c)
	c02AnyMembers(c)
	c02HandlerErrorConverted(c, "R-handler-error-converted")
	c02AnswerStatusOK(c, "R-answer-status")
	c03QueueAnswered(c) // a result or error reaches the caller only if its frame is handed to the session's queue
	// listings are built per request: a filter working in place must not reach the registry's own slice (shared with C13)
	c13Filters(c)
	// a frame into which another writer's bytes were interleaved is not what the handler returned: the stream-integrity
	// rules of C09 (one mutex per shared stream, one critical section per frame) are necessary here too
	expl, nd, as := c.R.Explanation, c.R.NotDecided, c.R.Assumptions
	checkC09(c)
	c.R.Explanation, c.R.NotDecided, c.R.Assumptions = expl+" The stream-integrity rules of C09 (R-field-writer, R-shared-writer, R-frame-atomic, R-payload) are evaluated as well.", nd, as
	c01FreshBuffer(c) // a message handed to a caller must not share its buffer with the next one read
	c02NoSubstringOnJSON(c)
	c02SiblingSource(c)
	// descriptors and results are the registered ones on every server kind: each server constructor wires every registry
	c12OneRegistry(c, discoverRegistries(c, CollectAccesses(c)).owners)
	c02ErrorEnvelope(c)
	c02ResultUntouched(c)

	// ---- R-unbounded-frames: the reader that returns a call's answer must not impose a line-length limit
	// (bufio.Scanner stops with ErrTooLong beyond its token limit; a multi-megabyte result is one data line)
	nPer := 0
	for _, lr := range sseLineReaders(c) {
		if !lr.perCall {
			continue
		}
		nPer++
		c.R.Check((lr.scanner == nil && lr.readerOK) || (lr.scanner != nil && !lr.limited), "R-unbounded-frames", "per-call SSE reader "+fname(lr.fn), c.Pos(lr.fn.Pos()),
			"lines are read without a practical length limit (bufio.Reader, or a Scanner whose limit is at least 1 GiB)",
			sprintf("%s reads the answer's SSE stream with a bufio.Scanner: a result whose single data line exceeds the scanner's token limit makes the call fail instead of returning what the handler produced", fname(lr.fn)))
	}
	c.R.Min("R-unbounded-frames", 1)
	_ = nPer
}

// c02Descriptor: the function(s) that build a value of the named type from a map read every JSON member.
func c02Descriptor(c *Ctx, helpers map[*ssa.Function]bool, typeName string, _ []string) {
	T := c.P.RootNamed(typeName)
	if T == nil {
		c.R.Break("anchor not found: %s", typeName)
		return
	}
	// decoders: client-side functions that take *json.RawMessage and (transitively, 1 level) read keys and allocate T
	read := map[string]bool{}
	var where []string
	for _, fn := range c.P.LibFns {
		if len(fn.Params) != 1 || ir.TypeStr(fn.Params[0].Type()) != "*encoding/json.RawMessage" {
			continue
		}
		// the decoder and the helpers it is split into (static library callees, three levels)
		parts := staticClosure(c, fn, 3)
		builds := false
		for _, part := range parts {
			ir.EachInstr(part, func(_ *ssa.BasicBlock, _ int, in ssa.Instruction) {
				if al, ok := in.(*ssa.Alloc); ok {
					if n, ok := al.Type().(*types.Pointer).Elem().(*types.Named); ok && n == T {
						builds = true
					}
				}
			})
		}
		if !builds {
			continue
		}
		where = append(where, fname(fn))
		for _, part := range parts {
			for _, kr := range keysRead(part, helpers) {
				read[kr.key] = true
			}
		}
	}
	if len(where) == 0 {
		c.R.Break("no hand-written decoder building %s from a raw message found", typeName)
		return
	}
	for _, m := range jsonMembers(T, 0) {
		if m.key == "nextCursor" {
			continue
		}
		c.R.Check(read[m.key], "R-field-cover", typeName+"."+m.key, "", "read by "+strings.Join(where, ","),
			sprintf("%s has the JSON member %q but its client-side decoder (%s) never reads it", typeName, m.key, strings.Join(where, ",")))
	}
}

// c02EmptyReject: an error return (or variant selection) control dependent on `extracted == ""`.
func c02EmptyReject(c *Ctx, dec *ssa.Function, T *types.Named, helpers map[*ssa.Function]bool) {
	members := map[string]jsonMember{}
	var scan func(t types.Type)
	scan = func(t types.Type) {
		for _, m := range jsonMembers(t, 0) {
			members[m.key] = m
		}
	}
	scan(T)
	// for the resource decoder all ResourceContents implementations contribute
	if rcI := c.P.RootNamed("ResourceContents"); rcI != nil && types.Implements(T, rcI.Underlying().(*types.Interface)) {
		for _, R := range c.P.Implementers(rcI.Underlying().(*types.Interface)) {
			scan(R)
		}
	}
	extracted := map[ssa.Value]string{}
	for _, kr := range keysRead(dec, helpers) {
		extracted[kr.value] = kr.key
	}
	pd := flow.NewPostDom(dec)
	n := 0
	for _, b := range dec.Blocks {
		if len(b.Instrs) == 0 {
			continue
		}
		ifi, ok := b.Instrs[len(b.Instrs)-1].(*ssa.If)
		if !ok {
			continue
		}
		conds := []ssa.Value{ifi.Cond}
		for _, cond := range conds {
			bin, ok := cond.(*ssa.BinOp)
			if !ok || (bin.Op != token.EQL && bin.Op != token.NEQ) {
				continue
			}
			s, isS := ir.ConstStr(bin.Y)
			if !isS || s != "" {
				continue
			}
			key, isExtracted := extracted[bin.X]
			if !isExtracted {
				continue
			}
			m, known := members[key]
			if !known || m.omitempty {
				continue
			}
			n++
			_ = pd
			c.R.Violate("R-no-empty-reject", T.Obj().Name()+"."+key+" in "+fname(dec), ipos(c, ifi),
				sprintf("%s decides on `%s == \"\"`, but %s.%s has no omitempty: a handler may legitimately return the empty string, which the decoder then rejects or mis-classifies (absent and empty are conflated)", fname(dec), key, T.Obj().Name(), m.field))
		}
	}
	if n == 0 {
		c.R.Hold("R-no-empty-reject", T.Obj().Name()+" in "+fname(dec), c.Pos(dec.Pos()), "no decision on emptiness of a non-omitempty member")
	}
	// the converse: a member whose ABSENCE the decoder rejects must always be emitted — an `omitempty` on it makes the
	// encoder leave it out for a legitimate empty value, and the library's own client then refuses the answer
	for v, key := range extracted {
		m, known := members[key]
		if !known || !m.omitempty {
			continue
		}
		tuple := v
		if ex, ok := v.(*ssa.Extract); ok {
			tuple = ex.Tuple
		}
		if tuple.Referrers() == nil {
			continue
		}
		var okv ssa.Value
		for _, r := range *tuple.Referrers() {
			if e2, ok := r.(*ssa.Extract); ok && ir.TypeStr(e2.Type()) == "bool" {
				okv = e2
			}
		}
		if okv == nil {
			continue
		}
		for _, b := range dec.Blocks {
			if len(b.Instrs) == 0 {
				continue
			}
			ifi, ok := b.Instrs[len(b.Instrs)-1].(*ssa.If)
			if !ok {
				continue
			}
			cond, absentSucc := ifi.Cond, 1
			if u, ok := cond.(*ssa.UnOp); ok && u.Op == token.NOT {
				cond, absentSucc = u.X, 0
			}
			if cond != okv {
				continue
			}
			// does the absent edge lead straight to an error return?
			rejects := false
			for blk := range flow.BlocksReachableAvoiding(b.Succs[absentSucc], map[*ssa.BasicBlock]bool{b.Succs[1-absentSucc]: true}) {
				if r, ok := blk.Instrs[len(blk.Instrs)-1].(*ssa.Return); ok {
					rs := ir.Results(r)
					if len(rs) > 0 && ir.TypeStr(rs[len(rs)-1].Type()) == "error" && !ir.IsNilConst(rs[len(rs)-1]) {
						rejects = true
					}
				}
			}
			if rejects {
				c.R.Violate("R-no-empty-reject", T.Obj().Name()+"."+key+" required by "+fname(dec)+" but omitempty", c.Pos(dec.Pos()),
					sprintf("%s refuses a %s without the member %q, while %s.%s is tagged omitempty: a handler's value with an empty %s is encoded without the member and the client fails the whole call", fname(dec), T.Obj().Name(), key, T.Obj().Name(), m.field, key))
			}
		}
	}
}

// ---------------------------------------------------------------- R-same-type
func c02SameType(c *Ctx) {
	// server side: the named result types returned by dispatch targets (through forwarders)
	serverTypes := map[string]bool{}
	for _, es := range c.MapLiteralDispatch() {
		for _, e := range es {
			t := forwardTarget(c, e.Target, 0)
			if t == nil {
				continue
			}
			ir.EachInstr(t, func(_ *ssa.BasicBlock, _ int, in ssa.Instruction) {
				if mi, ok := in.(*ssa.MakeInterface); ok {
					tt := mi.X.Type()
					if p, ok := tt.(*types.Pointer); ok {
						tt = p.Elem()
					}
					if n, ok := tt.(*types.Named); ok && strings.HasSuffix(n.Obj().Name(), "Result") {
						serverTypes[n.Obj().Name()] = true
					}
				}
			})
		}
	}
	n := 0
	for _, fn := range c.P.LibFns {
		if len(fn.Params) < 1 || ir.TypeStr(fn.Params[0].Type()) != "*encoding/json.RawMessage" || fn.Signature.Results().Len() != 2 { // (also instantiations of a generic decoder(raw, label))
			continue
		}
		rt := fn.Signature.Results().At(0).Type()
		if p, ok := rt.(*types.Pointer); ok {
			rt = p.Elem()
		}
		rn, ok := rt.(*types.Named)
		if !ok || !strings.HasSuffix(rn.Obj().Name(), "Result") {
			continue
		}
		ir.EachCall(fn, func(call ssa.CallInstruction) {
			if ir.CallName(call) != "encoding/json.Unmarshal" {
				return
			}
			tgt := ir.Unwrap(call.Common().Args[1]).Type()
			if p, ok := tgt.(*types.Pointer); ok {
				tgt = p.Elem()
			}
			tn, ok := tgt.(*types.Named)
			if !ok || !strings.HasSuffix(tn.Obj().Name(), "Result") {
				return
			}
			n++
			c.R.Check(tn == rn && serverTypes[tn.Obj().Name()], "R-same-type", fname(fn), c.Pos(call.Pos()),
				"decodes into "+tn.Obj().Name()+", the type the server returns",
				sprintf("%s decodes the answer into %s, which is not the type the server-side handler returns (%v)", fname(fn), tn.Obj().Name(), serverTypes))
		})
	}
	c.R.Min("R-same-type", 4)
}

// ---------------------------------------------------------------- R-err-carry
func c02ErrCarry(c *Ctx) {
	conn := c.P.RootNamed("Connector")
	if conn == nil {
		return
	}
	iface := conn.Underlying().(*types.Interface)
	n := 0
	for _, T := range c.P.Implementers(iface) {
		for i := 0; i < iface.NumMethods(); i++ {
			m := c.P.Method(T, iface.Method(i).Name())
			if m == nil {
				continue
			}
			// the error-answer branch: true edge of a call to a (raw message) -> bool function, in the method itself or in
			// a helper the method hands the raw answer to (two levels)
			construct := ir.TypeKey(T) + "." + m.Name()
			seenFn := map[*ssa.Function]bool{}
			var scan func(fn *ssa.Function, depth int)
			scan = func(fn *ssa.Function, depth int) {
				if seenFn[fn] {
					return
				}
				seenFn[fn] = true
				ir.EachInstr(fn, func(_ *ssa.BasicBlock, _ int, in ssa.Instruction) {
					if call, ok := in.(*ssa.Call); ok && depth < 2 {
						if sc := ir.StaticCallee(call); sc != nil && c.P.IsLib(sc) && sc.Signature.Results().Len() > 0 &&
							ir.TypeStr(sc.Signature.Results().At(sc.Signature.Results().Len()-1).Type()) == "error" {
							for _, a := range call.Call.Args {
								if ir.TypeStr(a.Type()) == "*encoding/json.RawMessage" {
									scan(sc, depth+1)
								}
							}
						}
					}
					ifi, ok := in.(*ssa.If)
					if !ok {
						return
					}
					call, ok := ifi.Cond.(*ssa.Call)
					if !ok {
						return
					}
					sc := ir.StaticCallee(call)
					if sc == nil || sc.Signature.Params().Len() != 1 || ir.TypeStr(sc.Signature.Params().At(0).Type()) != "*encoding/json.RawMessage" || ir.TypeStr(sc.Signature.Results().At(0).Type()) != "bool" {
						return
					}
					n++
					// on the true edge some fmt.Errorf takes the Message member of the parsed error
					carries := false
					region := flow.BlocksReachableAvoiding(ifi.Block().Succs[0], map[*ssa.BasicBlock]bool{ifi.Block().Succs[1]: true})
					for b := range region {
						for _, x := range b.Instrs {
							ec, ok := x.(*ssa.Call)
							if !ok || ir.CallName(ec) != "fmt.Errorf" {
								continue
							}
							for _, e := range variadicElems(ec.Call.Args[1]) {
								if e == nil {
									continue
								}
								if f, _, ok := ir.LoadedField(ir.Unwrap(e)); ok && f.Name == "Message" {
									carries = true
								}
							}
						}
					}
					c.R.Check(carries, "R-err-carry", construct, ipos(c, ifi), "the Go error carries the JSON-RPC error's message",
						sprintf("%s turns a JSON-RPC error answer into a Go error that does not carry the answer's message: the handler's error text does not reach the caller", construct))
				})
			}
			scan(m, 0)
		}
	}
	c.R.Min("R-err-carry", 14)
}

// staticClosure: fn and the library functions it reaches through static calls within the given depth.
func staticClosure(c *Ctx, fn *ssa.Function, depth int) []*ssa.Function {
	seen := map[*ssa.Function]bool{fn: true}
	out := []*ssa.Function{fn}
	frontier := []*ssa.Function{fn}
	for d := 0; d < depth; d++ {
		var next []*ssa.Function
		for _, f := range frontier {
			ir.EachCall(f, func(call ssa.CallInstruction) {
				if sc := ir.StaticCallee(call); sc != nil && c.P.IsLib(sc) && !seen[sc] {
					seen[sc] = true
					out = append(out, sc)
					next = append(next, sc)
				}
			})
		}
		frontier = next
	}
	return out
}

// ---------------------------------------------------------------- R-any-member
// A member declared interface{} in a result type can carry any JSON value (object, array, string, number, bool). A
// hand-written decoder must hand it on as decoded; storing a value narrowed to one concrete Go type (the boxed result of
// a type assertion or of a helper returning map[string]interface{}) silently drops every other shape.
func c02AnyMembers(c *Ctx) {
	n := 0
	for _, fn := range c.P.LibFns {
		if !clientSide(c, fn) {
			continue
		}
		ir.EachInstr(fn, func(_ *ssa.BasicBlock, _ int, in ssa.Instruction) {
			st, ok := in.(*ssa.Store)
			if !ok {
				return
			}
			f, _, ok := ir.FieldOf(st.Addr)
			if !ok || f.Struct == nil || f.Struct.Obj().Pkg() == nil || f.Struct.Obj().Pkg().Path() != ir.RootPath || !strings.HasSuffix(f.Struct.Obj().Name(), "Result") {
				return
			}
			it, isIface := f.Type.Underlying().(*types.Interface)
			if !isIface || it.NumMethods() != 0 {
				return
			}
			n++
			narrowed := ""
			if mi, ok := st.Val.(*ssa.MakeInterface); ok {
				narrowed = ir.TypeStr(mi.X.Type())
			}
			c.R.Check(narrowed == "", "R-any-member", f.Key()+" in "+fname(fn), c.Pos(st.Pos()), "the decoded value is stored as it was decoded (any JSON shape)",
				sprintf("%s stores %s after narrowing it to %s: a handler that returned an array, a string, a number or a bool there is silently answered with nothing", fname(fn), f.Key(), narrowed))
		})
	}
	c.R.Min("R-any-member", 1)
}

// ---------------------------------------------------------------- R-handler-error-converted
// A failing user handler reaches the caller as a JSON-RPC error carrying the handler's message on every transport
// only because the function that invokes the handler converts the error itself (newJSONRPCErrorResponse(..., err.Error())).
// If it returns the Go error instead, each transport makes something else of it (stdio: "Internal error" with the text
// moved to data), and the caller no longer receives the message.
func c02HandlerErrorConverted(c *Ctx, rule string) {
	n := 0
	for _, fn := range c.P.LibFns {
		var hcalls []*ssa.Call
		ir.EachInstr(fn, func(_ *ssa.BasicBlock, _ int, in ssa.Instruction) {
			call, ok := in.(*ssa.Call)
			if !ok {
				return
			}
			switch userCallbackCall(c, call) {
			case "toolHandler", "promptHandler", "resourceHandler", "resourcesHandler", "resourceTemplateHandler":
				hcalls = append(hcalls, call)
			}
		})
		if len(hcalls) == 0 || !returnsError(fn) {
			continue
		}
		// only the functions that answer a request (adapters between handler shapes hand the error on unchanged)
		takesReq := false
		for _, p := range fn.Params {
			if ir.TypeStr(p.Type()) == "*mcp.JSONRPCRequest" {
				takesReq = true
			}
		}
		if !takesReq {
			continue
		}
		n++
		raw := false
		ir.EachInstr(fn, func(blk *ssa.BasicBlock, _ int, in ssa.Instruction) {
			r, ok := in.(*ssa.Return)
			if !ok || blk == fn.Recover {
				return
			}
			rs := ir.Results(r)
			last := rs[len(rs)-1]
			for _, hc := range hcalls {
				if valueDependsOn(last, hc, 0) {
					raw = true
				}
			}
		})
		c.R.Check(!raw, rule, "handler error in "+fname(fn), c.Pos(hcalls[0].Pos()), "converted to a JSON-RPC error by the function that invoked the handler",
			sprintf("%s returns the user handler's error as a Go error instead of converting it into a JSON-RPC error with the handler's message: the transports treat it differently (stdio answers \"Internal error\"), and the message does not reach the caller", fname(fn)))
	}
	c.R.Min(rule, 3)
}

// c02AnswerStatusOK (R-answer-status): a JSON-RPC answer — also one that carries an error object — travels in an HTTP
// 200 body; the clients take any other status for a transport failure and never look at the body, so a handler's error
// message would be replaced by "status code 500". In every server function that writes a marshalled message to the
// ResponseWriter, each WriteHeader from which that write can be reached passes the constant 200.
func c02AnswerStatusOK(c *Ctx, rule string) {
	n := 0
	fromMarshal := func(v ssa.Value) bool {
		seen := map[ssa.Value]bool{}
		var walk func(v ssa.Value, d int) bool
		walk = func(v ssa.Value, d int) bool {
			if v == nil || d > 8 || seen[v] {
				return false
			}
			seen[v] = true
			switch x := v.(type) {
			case *ssa.Parameter:
				// a writing helper (writeAnswer(w, body)): what its library callers hand in
				fn := x.Parent()
				for i, q := range fn.Params {
					if q != x {
						continue
					}
					for _, e := range ir.Callers(c.G, fn) {
						if e.Site != nil && c.P.IsLib(e.Caller.Func) && i < len(e.Site.Common().Args) && walk(e.Site.Common().Args[i], d+1) {
							return true
						}
					}
				}
			case *ssa.Extract:
				if call, ok := x.Tuple.(*ssa.Call); ok && x.Index == 0 && ir.CallName(call) == "encoding/json.Marshal" {
					return true
				}
				// the first result of a library encoder (encodeAnswer(resp)) that returns marshalled bytes
				if call, ok := x.Tuple.(*ssa.Call); ok && x.Index == 0 {
					if sc := ir.StaticCallee(call); sc != nil && c.P.IsLib(sc) {
						found := false
						ir.EachInstr(sc, func(b *ssa.BasicBlock, _ int, in ssa.Instruction) {
							if r, ok := in.(*ssa.Return); ok && b != sc.Recover && len(ir.Results(r)) > 0 && walk(ir.Results(r)[0], d+1) {
								found = true
							}
						})
						if found {
							return true
						}
					}
				}
			case *ssa.Phi:
				for _, e := range x.Edges {
					if walk(e, d+1) {
						return true
					}
				}
			case *ssa.Slice:
				return walk(x.X, d+1)
			case *ssa.Call:
				if b, ok := x.Call.Value.(*ssa.Builtin); ok && b.Name() == "append" {
					return walk(x.Call.Args[0], d+1)
				}
				// the bytes of a buffer a json.Encoder of the same function encoded into
				if ir.CallName(x) == "(*bytes.Buffer).Bytes" {
					enc := false
					scan := []*ssa.Function{x.Parent()}
					// ... or of a buffer a library helper encoded into and handed back
					if len(x.Call.Args) > 0 {
						if oc := originCall(x.Call.Args[0]); oc != nil {
							if sc := ir.StaticCallee(oc); sc != nil && c.P.IsLib(sc) {
								scan = append(scan, sc)
							}
						}
					}
					for _, f := range scan {
						ir.EachCall(f, func(ic ssa.CallInstruction) {
							if ir.CallName(ic) == "(*encoding/json.Encoder).Encode" {
								enc = true
							}
						})
					}
					return enc
				}
				// the single result of a library encoder
				if sc := ir.StaticCallee(x); sc != nil && c.P.IsLib(sc) && sc.Signature.Results().Len() == 1 {
					found := false
					ir.EachInstr(sc, func(b *ssa.BasicBlock, _ int, in ssa.Instruction) {
						if r, ok := in.(*ssa.Return); ok && b != sc.Recover && len(ir.Results(r)) > 0 && walk(ir.Results(r)[0], d+1) {
							found = true
						}
					})
					return found
				}
			case *ssa.UnOp:
				if u := unspill(x); u != ssa.Value(x) {
					return walk(u, d+1)
				}
			}
			return false
		}
		return walk(v, 0)
	}
	for _, fn := range c.P.LibFns {
		if clientSide(c, fn) {
			continue
		}
		var writes, headers []*ssa.Call
		ir.EachInstr(fn, func(_ *ssa.BasicBlock, _ int, in ssa.Instruction) {
			call, ok := in.(*ssa.Call)
			if !ok || !call.Call.IsInvoke() || !isResponseWriter(call.Call.Value.Type()) {
				return
			}
			switch call.Call.Method.Name() {
			case "Write":
				if len(call.Call.Args) == 1 && fromMarshal(call.Call.Args[0]) {
					writes = append(writes, call)
				}
			case "WriteHeader":
				headers = append(headers, call)
			}
		})
		if len(writes) == 0 {
			continue
		}
		for i, h := range headers {
			reaches := false
			for _, w := range writes {
				if h.Block() == w.Block() || flow.BlocksReachableAvoiding(h.Block(), nil)[w.Block()] {
					reaches = true
				}
			}
			if !reaches {
				continue
			}
			n++
			code, isConst := ir.ConstInt(h.Call.Args[0])
			c.R.Check(isConst && code == 200, rule, sprintf("status of the answer body written by %s #%d", fname(fn), i+1), c.Pos(h.Pos()),
				"the marshalled message is sent with status 200",
				sprintf("%s sends a marshalled JSON-RPC message with a status that is not the constant 200: the library's clients treat every other status as a transport failure and discard the body, so a handler's error (code, message) never reaches the caller", fname(fn)))
		}
	}
	c.R.Min(rule, 1)
}

// ---------------------------------------------------------------- R-error-envelope
// The client recognises a failed call by the top-level "error" member of what the transport hands it, and builds the Go
// error (code, message) from that envelope. A transport must therefore never hand upwards the bare content of the
// "error" member — a value loaded from a struct member tagged json:"error", or looked up under the constant key "error" —
// as if it were the answer: such an object has no "error" member, is taken for a result, and the handler's error
// reaches the caller as an empty success. Checked on the client side: no such value flows (through conversions,
// json.Marshal, local variables) into a json.RawMessage that is returned or sent on a channel.
func c02ErrorEnvelope(c *Ctx) {
	isRaw := func(t types.Type) bool {
		s := ir.TypeStr(t)
		return s == "encoding/json.RawMessage" || s == "*encoding/json.RawMessage"
	}
	tagName := func(st *types.Struct, i int) string {
		return strings.Split(reflect.StructTag(st.Tag(i)).Get("json"), ",")[0]
	}
	nSrc := 0
	for _, fn := range c.P.LibFns {
		if !clientSide(c, fn) {
			continue
		}
		ir.EachInstr(fn, func(_ *ssa.BasicBlock, _ int, in ssa.Instruction) {
			var src ssa.Value
			switch x := in.(type) {
			case *ssa.UnOp:
				if fa, ok := x.X.(*ssa.FieldAddr); ok && x.Op == token.MUL {
					if pt, ok := fa.X.Type().Underlying().(*types.Pointer); ok {
						if st, ok := pt.Elem().Underlying().(*types.Struct); ok && tagName(st, fa.Field) == "error" {
							src = x
						}
					}
				}
			case *ssa.Field:
				if st, ok := x.X.Type().Underlying().(*types.Struct); ok && tagName(st, x.Field) == "error" {
					src = x
				}
			case *ssa.Lookup:
				if k, ok := ir.ConstStr(x.Index); ok && k == "error" {
					src = x
				}
			}
			if src == nil {
				return
			}
			nSrc++
			seen := map[ssa.Value]bool{}
			var sink ssa.Instruction
			var visit func(v ssa.Value, d int)
			visit = func(v ssa.Value, d int) {
				if v == nil || v.Referrers() == nil || d > 8 || seen[v] || sink != nil {
					return
				}
				seen[v] = true
				for _, r := range *v.Referrers() {
					switch y := r.(type) {
					case *ssa.Convert:
						visit(y, d+1)
					case *ssa.ChangeType:
						visit(y, d+1)
					case *ssa.MakeInterface:
						visit(y, d+1)
					case *ssa.Phi:
						visit(y, d+1)
					case *ssa.Slice:
						visit(y, d+1)
					case *ssa.Extract:
						if y.Index == 0 {
							visit(y, d+1)
						}
					case *ssa.Call:
						if ir.CallName(y) == "encoding/json.Marshal" {
							visit(y, d+1)
						} else if sc := ir.StaticCallee(y); sc != nil && c.P.IsLib(sc) && clientSide(c, sc) && isRaw(v.Type()) && d < 6 {
							// handed to a helper that delivers it (deliverResponse(id, &msg)): continue in the helper
							for ai, a := range y.Call.Args {
								if a == v && ai < len(sc.Params) {
									visit(sc.Params[ai], d+1)
								}
							}
						}
					case *ssa.Store:
						if y.Val == v {
							// the variable now holds it: its address and its loads carry it on
							if al, ok := y.Addr.(*ssa.Alloc); ok {
								visit(al, d+1)
							}
						}
					case *ssa.UnOp:
						if y.Op == token.MUL {
							visit(y, d+1)
						}
					case *ssa.Send:
						if y.X == v && isRaw(v.Type()) {
							sink = y
						}
					case *ssa.Select:
						for _, st := range y.States {
							if st.Send == v && isRaw(v.Type()) {
								sink = y
							}
						}
					case *ssa.Return:
						if isRaw(v.Type()) {
							sink = y
						}
					}
				}
			}
			visit(src, 0)
			if sink != nil {
				c.R.Violate("R-error-envelope", sprintf("content of the \"error\" member handed on by %s", fname(fn)), c.Pos(sink.Pos()),
					sprintf("%s hands on the bare content of a message's \"error\" member as the raw answer (%s): the client looks for a top-level \"error\" member to recognise a failure, finds none, and decodes the object as a result — a handler's error reaches the caller as an (empty) success, its code and message lost", fname(fn), c.Pos(src.Pos())))
			}
		})
	}
	c.R.Hold("R-error-envelope", "uses of the \"error\" member on the client side", "", sprintf("%d loads / lookups of an \"error\" member examined; none is handed on as a raw answer", nSrc))
	if nSrc < 3 {
		c.R.Break("R-error-envelope: only %d uses of an \"error\" member found on the client side", nSrc)
	}
}

// ---------------------------------------------------------------- R-result-untouched
// "What a handler returns is what the caller receives": between the call of a user handler (a function value the
// application registered, returning a *…Result) and the encoder, the server does not write into the object the handler
// returned — no store to one of its members in the calling function, nor in a library function the result is handed to.
// Adding, replacing or clearing a member there changes the content list / flags the caller decodes.
func c02ResultUntouched(c *Ctx) {
	n := 0
	writesParam := func(f *ssa.Function, idx int) (bool, string) {
		if f == nil || idx >= len(f.Params) || f.Blocks == nil {
			return false, ""
		}
		p := f.Params[idx]
		found, member := false, ""
		ir.EachInstr(f, func(_ *ssa.BasicBlock, _ int, in ssa.Instruction) {
			st, ok := in.(*ssa.Store)
			if !ok {
				return
			}
			if fa, ok := st.Addr.(*ssa.FieldAddr); ok && ir.Unwrap(fa.X) == ssa.Value(p) {
				if fr, _, ok := ir.FieldOf(fa); ok {
					found, member = true, fr.Name
				}
			}
		})
		return found, member
	}
	for _, fn := range c.P.LibFns {
		if clientSide(c, fn) {
			continue
		}
		ir.EachInstr(fn, func(_ *ssa.BasicBlock, _ int, in ssa.Instruction) {
			call, ok := in.(*ssa.Call)
			if !ok || call.Call.IsInvoke() || ir.StaticCallee(call) != nil {
				return
			}
			if _, isBuiltin := call.Call.Value.(*ssa.Builtin); isBuiltin {
				return
			}
			tup, ok := call.Type().(*types.Tuple)
			if !ok || tup.Len() != 2 || ir.TypeStr(tup.At(1).Type()) != "error" {
				return
			}
			pt, ok := tup.At(0).Type().(*types.Pointer)
			if !ok {
				return
			}
			nt, ok := pt.Elem().(*types.Named)
			if !ok || !ir.InLibrary(nt) || !strings.HasSuffix(nt.Obj().Name(), "Result") {
				return
			}
			var res ssa.Value
			for _, r := range *call.Referrers() {
				if ex, ok := r.(*ssa.Extract); ok && ex.Index == 0 {
					res = ex
				}
			}
			if res == nil {
				return
			}
			n++
			construct := sprintf("result of the %s handler called in %s", nt.Obj().Name(), fname(fn))
			bad := ""
			var follow func(v ssa.Value, d int)
			seen := map[ssa.Value]bool{}
			follow = func(v ssa.Value, d int) {
				if v.Referrers() == nil || d > 4 || seen[v] || bad != "" {
					return
				}
				seen[v] = true
				for _, r := range *v.Referrers() {
					switch y := r.(type) {
					case *ssa.FieldAddr:
						if y.X != v || y.Referrers() == nil {
							continue
						}
						for _, rr := range *y.Referrers() {
							if st, ok := rr.(*ssa.Store); ok && st.Addr == ssa.Value(y) {
								fr, _, _ := ir.FieldOf(y)
								bad = sprintf("writes its member %s at %s", fr.Name, c.Pos(st.Pos()))
							}
						}
					case *ssa.Phi:
						follow(y, d+1)
					case *ssa.Store:
						// kept in a local variable: follow its loads
						if al, ok := y.Addr.(*ssa.Alloc); ok && y.Val == v && al.Referrers() != nil {
							for _, lr := range *al.Referrers() {
								if u, ok := lr.(*ssa.UnOp); ok && u.Op == token.MUL {
									follow(u, d+1)
								}
							}
						}
					case *ssa.Call:
						sc := ir.StaticCallee(y)
						if sc == nil || !c.P.IsLib(sc) {
							continue
						}
						for i, a := range y.Call.Args {
							if a == v {
								if w, m := writesParam(sc, i); w {
									bad = sprintf("hands it to %s, which writes its member %s", fname(sc), m)
								}
							}
						}
					}
				}
			}
			follow(res, 0)
			// ... and what the function answers with after the handler has run is the handler's object, not a new one
			// of the same type assembled from parts of it (members the assembly does not copy — _meta, flags — are lost)
			if bad == "" {
				ir.EachInstr(fn, func(blk *ssa.BasicBlock, _ int, in2 ssa.Instruction) {
					ret, ok := in2.(*ssa.Return)
					if !ok || blk == fn.Recover || len(ret.Results) == 0 || !flow.Reaches(call, ret) {
						return
					}
					var fresh func(v ssa.Value, d int) bool
					fresh = func(v ssa.Value, d int) bool {
						if d > 4 {
							return false
						}
						switch x := v.(type) {
						case *ssa.MakeInterface:
							return fresh(x.X, d+1)
						case *ssa.Alloc:
							if p, ok := x.Type().(*types.Pointer); ok {
								return types.Identical(p.Elem(), nt)
							}
						case *ssa.Phi:
							for _, e := range x.Edges {
								if fresh(e, d+1) {
									return true
								}
							}
						case *ssa.UnOp:
							if u := unspill(x); u != ssa.Value(x) {
								return fresh(u, d+1)
							}
						}
						return false
					}
					if fresh(ir.Results(ret)[0], 0) {
						bad = sprintf("answers (at %s) with a new %s assembled after the handler returned", c.Pos(ret.Pos()), nt.Obj().Name())
					}
				})
			}
			c.R.Check(bad == "", "R-result-untouched", construct, c.Pos(call.Pos()), "the object the handler returned is not written to before it is encoded",
				sprintf("%s calls a registered handler and then %s: what goes to the encoder is not what the handler returned (an item added, a flag changed), so the caller does not receive the handler's result", fname(fn), bad))
		})
	}
	c.R.Min("R-result-untouched", 3)
	if n == 0 {
		c.R.Break("R-result-untouched: no call of a registered handler returning a *…Result found")
	}
}
