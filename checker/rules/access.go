package rules

import (
	"go/token"
	"go/types"
	"sort"

	"golang.org/x/tools/go/ssa"

	"verif/checker/ir"
	"verif/checker/lockset"
)

// Access is one read or write of a struct field (or of the map/slice stored in it).
type Access struct {
	Fn     *ssa.Function
	Instr  ssa.Instruction
	Field  string // "T.f" (nested anonymous structs: "T.f.g")
	Owner  string // "T"
	OwnerT *types.Named
	Type   types.Type
	Write  bool
	Kind   string // store | load | map-update | map-delete | elem-store | addr
	// for map-update: the key and the value stored (in Fn's terms; nil when the update is made by a helper from
	// something that is not one of its parameters)
	MapKey, MapVal ssa.Value
	Local          bool   // base object allocated in this function (not yet published)
	Base           string // symbolic path of the base object
	Locks          lockset.State
	Init           bool // in a construction-only function
	Pos            token.Pos
}

// CollectAccesses enumerates the field accesses of all library functions to structs declared in
// the library. Mutex/atomic/sync-typed fields are skipped (they synchronise themselves).
func CollectAccesses(c *Ctx) []Access {
	ls := c.Locks()
	init := c.InitOnly()
	var out []Access
	for _, fn := range c.P.LibFns {
		isInit := init[fn]
		ir.EachInstr(fn, func(_ *ssa.BasicBlock, _ int, in ssa.Instruction) {
			fa, ok := in.(*ssa.FieldAddr)
			if !ok {
				return
			}
			key, owner, typ, base := ir.FullField(fa)
			if key == "" || ir.IsSyncType(typ) {
				return
			}
			ownerT := ir.FullFieldOwner(fa)
			if !ir.InLibrary(ownerT) {
				return
			}
			if _, isStruct := typ.Underlying().(*types.Struct); isStruct {
				if _, named := typ.(*types.Named); !named {
					return // by-value anonymous struct: its fields are reported individually
				}
			}
			mk := func(at ssa.Instruction, write bool, kind string) {
				out = append(out, Access{Fn: fn, Instr: at, Field: key, Owner: owner, OwnerT: ownerT, Type: typ, Write: write, Kind: kind,
					Local: ir.BaseAlloc(base), Base: ir.Path(base), Locks: ls.At(at), Init: isInit, Pos: at.Pos()})
			}
			refs := fa.Referrers()
			if refs == nil {
				return
			}
			for _, r := range *refs {
				switch x := r.(type) {
				case *ssa.Store:
					if x.Addr == fa {
						mk(x, true, "store")
					} else {
						mk(x, false, "addr")
					}
				case *ssa.UnOp:
					if x.Op != token.MUL {
						continue
					}
					mk(x, false, "load")
					if lr := x.Referrers(); lr != nil {
						for _, u := range *lr {
							switch y := u.(type) {
							case *ssa.MapUpdate:
								if y.Map == x {
									mk(y, true, "map-update")
									out[len(out)-1].MapKey, out[len(out)-1].MapVal = y.Key, y.Value
								}
							case *ssa.Call:
								if b, ok := y.Call.Value.(*ssa.Builtin); ok && b.Name() == "delete" && len(y.Call.Args) > 0 && y.Call.Args[0] == x {
									mk(y, true, "map-delete")
								}
								// the map handed to a library helper that updates / deletes from the map it is given
								// (putOrdered(m.tbl, ...)): an update of this member made at the call
								if sc := ir.StaticCallee(y); sc != nil && c.P.IsLib(sc) {
									for ai, a := range y.Call.Args {
										if a != ssa.Value(x) || ai >= len(sc.Params) {
											continue
										}
										mp := sc.Params[ai]
										argOf := func(v ssa.Value) ssa.Value {
											for pi, q := range sc.Params {
												if ssa.Value(q) == v && pi < len(y.Call.Args) {
													return y.Call.Args[pi]
												}
											}
											return nil
										}
										ir.EachInstr(sc, func(_ *ssa.BasicBlock, _ int, hin ssa.Instruction) {
											switch h := hin.(type) {
											case *ssa.MapUpdate:
												if h.Map == ssa.Value(mp) {
													mk(y, true, "map-update")
													out[len(out)-1].MapKey, out[len(out)-1].MapVal = argOf(h.Key), argOf(h.Value)
												}
											case *ssa.Call:
												if b, ok := h.Call.Value.(*ssa.Builtin); ok && b.Name() == "delete" && len(h.Call.Args) > 0 && h.Call.Args[0] == ssa.Value(mp) {
													mk(y, true, "map-delete")
												}
											}
										})
									}
								}
							case *ssa.IndexAddr:
								if y.X == x {
									if ir2 := y.Referrers(); ir2 != nil {
										for _, z := range *ir2 {
											if s, ok := z.(*ssa.Store); ok && s.Addr == y {
												mk(s, true, "elem-store")
											}
										}
									}
								}
							}
						}
					}
				case *ssa.FieldAddr:
					// nested by-value struct: inner access is reported on its own
				case ssa.CallInstruction:
					mk(r, false, "addr")
				default:
					mk(r, false, "addr")
				}
			}
		})
	}
	sort.SliceStable(out, func(i, j int) bool {
		if out[i].Field != out[j].Field {
			return out[i].Field < out[j].Field
		}
		return out[i].Pos < out[j].Pos
	})
	return out
}
