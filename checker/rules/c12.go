package rules

import (
	"go/token"
	"go/types"
	"sort"
	"strings"

	"golang.org/x/tools/go/ssa"

	"verif/checker/flow"
	"verif/checker/ir"
)

// C12 — registries stay consistent while entries change under load.
//
// Decided (structural necessary conditions):
//
//		R-guarded-by      every post-construction access to a registry map / order slice holds the
//		                  owning struct's RWMutex; writes hold it exclusively
//		R-snapshot        within one function all accesses to one owner's registry fields lie in one
//		                  critical section (same acquisition), so a list is a snapshot
//		R-atomic-replace  registration stores one freshly allocated record (or a func value) with a
//		                  single map store; records already in a registry are never mutated in place
//		R-order           resources/list is produced by walking the order slice, never by ranging the map
//	  R-handler-unlocked  no registry lock is held while user code runs
//	  R-lookup-checked    every dereference of a looked-up registry entry is guarded by that lookup's own result
//	  R-cache-invalidated every registry mutation also invalidates any derived cache its owner keeps (discovered)
//	  R-one-registry      every caller of an options constructor with a fallback registry supplies its own registry
func init() { Registry["C12"] = checkC12 }

type registryInfo struct {
	fields map[string]bool // "T.f" of registry maps and order slices
	maps   map[string]bool
	owners map[string]bool
}

func discoverRegistries(c *Ctx, accs []Access) *registryInfo {
	var regFns []*ssa.Function
	for _, T := range c.serverTypes() {
		regFns = append(regFns, c.methodsWithPrefix(T, "Register", "Unregister")...)
	}
	if len(regFns) < 9 {
		c.R.Break("expected the Register*/Unregister* API on three server types, found %d methods", len(regFns))
	}
	reach := c.ReachSync(regFns...)
	ri := &registryInfo{fields: map[string]bool{}, maps: map[string]bool{}, owners: map[string]bool{}}
	for _, a := range accs {
		if !reach[a.Fn] || a.Local {
			continue
		}
		if _, isMap := a.Type.Underlying().(*types.Map); isMap && (a.Kind == "map-update" || a.Kind == "map-delete") {
			ri.fields[a.Field] = true
			ri.maps[a.Field] = true
			ri.owners[a.Owner] = true
		}
	}
	// order slices: slice fields of a registry owner stored to by the registration functions
	for _, a := range accs {
		if !reach[a.Fn] || a.Local || !ri.owners[a.Owner] {
			continue
		}
		if _, isSlice := a.Type.Underlying().(*types.Slice); isSlice && a.Kind == "store" {
			ri.fields[a.Field] = true
		}
	}
	return ri
}

func checkC12(c *Ctx) {
	c.R.Explanation = "Static lockset + shape analysis of the tool/prompt/resource/notification-handler registries: " +
		"registries are discovered as the map (and order-slice) fields mutated by the exported Register*/Unregister* API of the three servers; " +
		"every post-construction access must hold the owning struct's RWMutex (exclusively for writes), all accesses of one function lie in one critical section, " +
		"registration is a single store of a fresh record, and resources/list walks the order slice. This decides the structural necessary conditions, not linearizability."
	c.R.NotDecided = "linearizability of list/call results against a set model; behaviour of user handlers; fairness"
	c.R.Assumptions = []string{
		"lock identity is type-level (struct type + mutex field); two instances of one manager type are not confused by the code",
		"VTA call graph resolves the dynamic calls between API and managers",
		"sync.RWMutex behaves as documented",
	}
	accs := CollectAccesses(c)
	ri := discoverRegistries(c, accs)
	names := make([]string, 0, len(ri.fields))
	for f := range ri.fields {
		names = append(names, f)
	}
	sort.Strings(names)
	c.R.Extra["registry_fields"] = names
	c.R.Min("R-guarded-by", 30)
	c.R.Min("R-snapshot", 10)
	c.R.Min("R-atomic-replace", 7)
	c.R.Min("R-order", 2)
	published := c12PublishedTables(c)
	if len(names)+published < 10 {
		c.R.Break("discovered %d registry fields (%v) and %d copy-on-write tables, expected at least 10", len(names), names, published)
	}
	c12RowsUnconditional(c)

	c12OneRegistry(c, ri.owners)
	c12NoLockAcrossHandler(c, ri)
	c12LookupChecked(c, ri)
	c12DerivedCache(c, ri, accs)
	c12OrderPaired(c, ri, accs)
	c12WindowOrdered(c)
	c12ReplaceOneSection(c, ri, accs)
	c12RegisterReplaces(c, ri, accs)
	c12CountPaired(c)
	// a registry mutex left locked on some exit (an early return inside an explicit Lock … Unlock) wedges the registry
	{
		var fns []*ssa.Function
		for _, f := range c.P.LibFns {
			if !clientSide(c, f) {
				fns = append(fns, f)
			}
		}
		seenLeak := map[string]bool{}
		for _, l := range append(lockLeaks(c, fns), mayLeaks(c, fns)...) {
			k := l.key + " in " + fname(l.fn)
			if seenLeak[k] {
				continue
			}
			seenLeak[k] = true
			c.R.Violate("R-lock-balanced", k, c.Pos(l.at.Pos()), sprintf("%s acquires %s (at %s) and can return (near %s) without releasing it: every later registration, listing and call that needs the lock blocks forever", fname(l.fn), l.key, c.Pos(l.at.Pos()), ipos(c, l.ret)))
		}
		if len(seenLeak) == 0 {
			c.R.Hold("R-lock-balanced", "every acquisition is released on all paths", "", sprintf("%d server-side functions examined", len(fns)))
		}
	}
	// a list built in a recycled buffer is overwritten by the next request before it is encoded
	poolAliasRule(c, "R-answer-owned")
	poolResetRule(c, "R-pool-reset")

	guards := GuardTable(c, accs)
	c20GuardedValue(c, guards) // a registry map taken under the lock is not walked after the lock is released
	guardOf := map[string]string{}
	for _, g := range guards {
		if !ri.fields[g.Field] {
			continue
		}
		guardOf[g.Field] = g.Guard
		// the registry's own mutex — or, for a lock-free container type, the mutex of the struct that holds it
		ownMutex := g.Guard != "" && (strings.HasPrefix(g.Guard, g.Owner+".") || holdsMemberOf(c, lockOwnerNamed(c, g.Guard), g.OwnerT))
		if !ownMutex {
			c.R.Violate("R-guarded-by", g.Field+" (no guard)", c.Pos(g.Accesses[0].Pos),
				sprintf("registry field %s is written after construction but no access holds a mutex of %s (inferred guard %q)", g.Field, g.Owner, g.Guard))
			continue
		}
		cons := accessConstructs(g)
		for i, a := range g.Accesses {
			ok := a.Locks.Has(g.Guard)
			detail := sprintf("%s %s of %s holds %s", a.Kind, kindClass(a), g.Field, strings.Join(a.Locks.Keys(), ","))
			if ok && a.Write && !a.Locks.HasWrite(g.Guard) {
				c.R.Violate("R-guarded-by", cons[i], c.Pos(a.Pos),
					sprintf("%s of %s in %s holds %s only in shared (RLock) mode", a.Kind, g.Field, fname(a.Fn), g.Guard))
				continue
			}
			c.R.Check(ok, "R-guarded-by", cons[i], c.Pos(a.Pos), detail,
				sprintf("%s (%s) of registry field %s in %s without holding %s; locks held: [%s] — a concurrent Register*/Unregister* makes this a data race (fatal 'concurrent map read and map write' for maps)",
					a.Kind, kindClass(a), g.Field, fname(a.Fn), g.Guard, strings.Join(a.Locks.Keys(), ",")))
		}
	}

	// R-lock-reentry: no function calls, while it holds a registry's mutex, a function that takes the same mutex of
	// the same registry again — also not when both acquisitions are shared: with a registration waiting between the
	// two, the second read lock queues behind the writer, the writer behind the first, and the registry is wedged for
	// every later list, call and registration.
	regGuards := map[string]bool{}
	for _, g := range guardOf {
		if g != "" {
			regGuards[g] = true
		}
	}
	_, reentries := nestedThroughCallees(c, c.P.LibFns)
	nHolders := 0
	acqSum := acquireSummaries(c)
	for _, fn := range c.P.LibFns {
		for _, m := range acqSum[fn] {
			if regGuards[m.key] && m.at.Parent() == fn {
				if _, isAcq := c.Locks().Classify(m.at); isAcq {
					nHolders++
				}
			}
		}
	}
	bad := map[*ssa.Function]bool{}
	for _, r := range reentries {
		if !regGuards[r.key] {
			continue
		}
		bad[r.fn] = true
		c.R.Violate("R-lock-reentry", sprintf("%s calls %s while holding %s", fname(r.fn), fname(r.callee), r.key), c.Pos(r.call.Pos()),
			sprintf("%s calls %s while it holds %s, and %s (or a function it calls) takes the same mutex of the same registry again: once a Register*/Unregister* arrives between the two acquisitions the second one waits for that writer and the writer for the first — the registry stays locked, lists and calls are never answered", fname(r.fn), fname(r.callee), r.key, fname(r.callee)))
	}
	if nHolders < 10 {
		c.R.Break("R-lock-reentry: only %d acquisitions of registry mutexes found", nHolders)
	}
	c.R.Hold("R-lock-reentry", "functions taking a registry mutex", "", sprintf("%d acquisitions of %d registry mutexes examined, %d re-entrant", nHolders, len(regGuards), len(bad)))

	// R-snapshot: per function and owner, one acquisition site.
	type fo struct {
		fn    *ssa.Function
		owner string
	}
	groups := map[fo][]Access{}
	for _, a := range accs {
		if ri.fields[a.Field] && !a.Init && !a.Local {
			k := fo{a.Fn, a.Owner}
			groups[k] = append(groups[k], a)
		}
	}
	var keys []fo
	for k := range groups {
		keys = append(keys, k)
	}
	sort.Slice(keys, func(i, j int) bool {
		if keys[i].fn.String() != keys[j].fn.String() {
			return keys[i].fn.String() < keys[j].fn.String()
		}
		return keys[i].owner < keys[j].owner
	})
	for _, k := range keys {
		as := groups[k]
		guard := guardOf[as[0].Field]
		if guard == "" {
			continue
		}
		sites := map[ssa.Instruction]bool{}
		unheld := false
		for _, a := range as {
			h, ok := a.Locks[guardOf[a.Field]]
			if !ok {
				unheld = true
				continue
			}
			sites[h.Site] = true
		}
		if unheld {
			continue // already reported by R-guarded-by
		}
		construct := k.owner + " in " + fname(k.fn)
		c.R.Check(len(sites) == 1, "R-snapshot", construct, c.Pos(as[0].Pos),
			sprintf("%d registry accesses in one critical section of %s", len(as), guard),
			sprintf("%s touches the registry fields of %s in %d different critical sections of %s: entries may change between them (torn snapshot)", fname(k.fn), k.owner, len(sites), guard))
	}

	// R-atomic-replace
	for _, a := range accs {
		if !ri.maps[a.Field] || a.Init || a.Local || a.Kind != "map-update" {
			continue
		}
		construct0 := a.Field + " store in " + fname(a.Fn)
		if a.MapVal == nil {
			c.R.Violate("R-atomic-replace", construct0, c.Pos(a.Pos), sprintf("%s stores into %s through a helper a value that cannot be traced to the caller: whether it is a freshly allocated record is undecided", fname(a.Fn), a.Field))
			continue
		}
		v := ir.Unwrap(a.MapVal)
		_, isSig := v.Type().Underlying().(*types.Signature)
		fresh := freshRecord(c, a.Fn, v, 0)
		construct := a.Field + " store in " + fname(a.Fn)
		c.R.Check(fresh || isSig, "R-atomic-replace", construct, c.Pos(a.Pos),
			"value stored is a freshly allocated record / a function value",
			sprintf("%s stores a value into %s that is not a freshly allocated record: descriptor and handler may be observed torn", fname(a.Fn), a.Field))
	}
	// no in-place mutation of records fetched from a registry map
	for _, fn := range c.P.LibFns {
		ir.EachInstr(fn, func(_ *ssa.BasicBlock, _ int, in ssa.Instruction) {
			st, ok := in.(*ssa.Store)
			if !ok {
				return
			}
			fa, ok := st.Addr.(*ssa.FieldAddr)
			if !ok {
				return
			}
			base := fa.X
			if ex, ok := base.(*ssa.Extract); ok {
				base = ex.Tuple
			}
			lk, ok := base.(*ssa.Lookup)
			if !ok {
				return
			}
			f, _, ok := ir.LoadedField(lk.X)
			if !ok {
				return
			}
			if fa2, ok2 := lk.X.(*ssa.UnOp); ok2 {
				if faa, ok3 := fa2.X.(*ssa.FieldAddr); ok3 {
					key, _, _, _ := ir.FullField(faa)
					if ri.maps[key] {
						c.R.Violate("R-atomic-replace", key+" record mutated in "+fname(fn), c.Pos(st.Pos()),
							sprintf("%s mutates field %s of a record fetched from registry %s in place", fname(fn), f.Name, key))
					}
				}
			}
		})
	}

	// R-order
	checkC12Order(c, accs, ri)
}

func checkC12Order(c *Ctx, accs []Access, ri *registryInfo) {
	// the resources registry: the map mutated by the exported RegisterResource API
	var regFns []*ssa.Function
	for _, T := range c.serverTypes() {
		for _, f := range c.methodsWithPrefix(T, "RegisterResource") {
			if !strings.HasPrefix(f.Name(), "RegisterResourceTemplate") {
				regFns = append(regFns, f)
			}
		}
	}
	reachReg := c.ReachSync(regFns...)
	var resMap, resOrder, owner string
	for _, a := range accs {
		if reachReg[a.Fn] && a.Kind == "map-update" && ri.maps[a.Field] {
			resMap, owner = a.Field, a.Owner
		}
	}
	for _, a := range accs {
		if reachReg[a.Fn] && a.Kind == "store" && a.Owner == owner && ri.fields[a.Field] && !ri.maps[a.Field] {
			resOrder = a.Field
		}
	}
	if resMap == "" || resOrder == "" {
		c.R.Break("R-order: could not discover the resource registry map/order slice (map=%q order=%q)", resMap, resOrder)
		return
	}
	// functions serving resources/list: dispatch-table targets and the stdio switch both end in the same
	// manager; take every function reachable from a dispatch target for "resources/list".
	var roots []*ssa.Function
	for _, es := range c.MapLiteralDispatch() {
		for _, e := range es {
			if e.Method == "resources/list" {
				roots = append(roots, e.Target)
			}
		}
	}
	if len(roots) == 0 {
		c.R.Break("R-order: no dispatch-table entry for \"resources/list\"")
		return
	}
	list := c.ReachSync(roots...)
	walksOrder, rangesMap := 0, 0
	for _, fn := range sortedFuncs(list) {
		ir.EachInstr(fn, func(_ *ssa.BasicBlock, _ int, in ssa.Instruction) {
			var coll ssa.Value
			switch x := in.(type) {
			case *ssa.Range:
				coll = x.X
			case *ssa.IndexAddr:
				coll = x.X
			case *ssa.Index:
				coll = x.X
			default:
				return
			}
			u, ok := coll.(*ssa.UnOp)
			if !ok {
				return
			}
			fa, ok := u.X.(*ssa.FieldAddr)
			if !ok {
				return
			}
			key, _, _, _ := ir.FullField(fa)
			if key == resOrder {
				walksOrder++
				c.R.Hold("R-order", resOrder+" walked in "+fname(fn), c.Pos(in.Pos()), "resources/list iterates the registration-order slice")
			}
			if key == resMap {
				if _, isRange := in.(*ssa.Range); isRange {
					rangesMap++
					c.R.Violate("R-order", resMap+" ranged in "+fname(fn), c.Pos(in.Pos()),
						sprintf("%s (serving resources/list) ranges over the map %s: Go map iteration order is random, registration order is lost", fname(fn), resMap))
				}
			}
		})
	}
	c.R.Check(walksOrder > 0, "R-order", "resources/list uses "+resOrder, "", "order slice consulted",
		sprintf("no function serving resources/list iterates %s: the listing cannot be in registration order", resOrder))
	// registration appends to the order slice
	appended := false
	for _, a := range accs {
		if a.Field == resOrder && a.Kind == "store" && reachReg[a.Fn] {
			if st, ok := a.Instr.(*ssa.Store); ok {
				if call, ok := st.Val.(*ssa.Call); ok {
					if b, ok := call.Call.Value.(*ssa.Builtin); ok && b.Name() == "append" {
						// first argument must be the old slice: append(order, x) — not append([]string{x}, order...)
						if u, ok := call.Call.Args[0].(*ssa.UnOp); ok {
							if fa, ok := u.X.(*ssa.FieldAddr); ok {
								if key, _, _, _ := ir.FullField(fa); key == resOrder {
									appended = true
									continue
								}
							}
						}
						c.R.Violate("R-order", resOrder+" append shape in "+fname(a.Fn), c.Pos(a.Pos),
							"registration does not append the new key at the end of the order slice")
					} else if sc := ir.StaticCallee(call); sc != nil && c.P.IsLib(sc) {
						// a helper handed the order slice that returns it with the key appended at the end
						for i, arg := range call.Call.Args {
							u, ok := arg.(*ssa.UnOp)
							if !ok || i >= len(sc.Params) {
								continue
							}
							fa, ok := u.X.(*ssa.FieldAddr)
							if !ok {
								continue
							}
							if key, _, _, _ := ir.FullField(fa); key != resOrder {
								continue
							}
							ir.EachInstr(sc, func(_ *ssa.BasicBlock, _ int, in ssa.Instruction) {
								if ic, ok := in.(*ssa.Call); ok {
									if b, ok := ic.Call.Value.(*ssa.Builtin); ok && b.Name() == "append" && len(ic.Call.Args) == 2 && ic.Call.Args[0] == ssa.Value(sc.Params[i]) {
										if _, isSlice := ic.Call.Args[1].(*ssa.Slice); isSlice {
											appended = true
										}
									}
								}
							})
						}
					}
				}
			}
		}
	}
	c.R.Check(appended, "R-order", "registration appends to "+resOrder, "", "append(order, key)", "no registration function appends to the order slice")
}

// ---------------------------------------------------------------- R-one-registry
// A constructor built with functional options that falls back to a fresh registry when none was supplied
// (`if h.F == nil { h.F = newF() }`) silently gives the dispatcher a second, empty registry when a caller forgets the
// option: registrations go to the server's registry, lookups to the dispatcher's. Every library call of such a
// constructor must therefore pass, for each registry-typed member with a fallback, an option that sets that member.
func c12OneRegistry(c *Ctx, registryTypes map[string]bool) {
	n := 0
	for _, H := range c.P.LibFns {
		sig := H.Signature
		if !sig.Variadic() || sig.Params().Len() == 0 || H.Signature.Recv() != nil {
			continue
		}
		// fallback allocations: Store(FieldAddr(x, F), <call>) controlled by `x.F == nil`, F pointing to a registry struct
		fallback := map[string]bool{}
		ir.EachInstr(H, func(_ *ssa.BasicBlock, _ int, in ssa.Instruction) {
			st, ok := in.(*ssa.Store)
			if !ok {
				return
			}
			f, base, ok := ir.FieldOf(st.Addr)
			if !ok || !ir.BaseAlloc(base) {
				return
			}
			pt, ok := f.Type.(*types.Pointer)
			if !ok {
				return
			}
			nt, ok := pt.Elem().(*types.Named)
			if !ok || !registryTypes[ir.TypeKey(nt)] {
				return
			}
			for _, g := range flow.Guards(H, st.Block()) {
				if v, _, ok := nilCompare(g.If.Cond); ok {
					if lf, _, ok := ir.LoadedField(v); ok && lf.Key() == f.Key() {
						fallback[f.Key()] = true
					}
				}
			}
		})
		if len(fallback) == 0 {
			continue
		}
		// option constructors: library functions returning a closure that stores its captured parameter into member F
		setter := map[*ssa.Function]string{}
		for _, fn := range c.P.LibFns {
			if fn.Parent() == nil {
				continue
			}
			ir.EachInstr(fn, func(_ *ssa.BasicBlock, _ int, in ssa.Instruction) {
				st, ok := in.(*ssa.Store)
				if !ok {
					return
				}
				f, base, ok := ir.FieldOf(st.Addr)
				if !ok || !fallback[f.Key()] {
					return
				}
				if _, isParam := base.(*ssa.Parameter); isParam {
					setter[fn.Parent()] = f.Key()
				}
			})
		}
		for _, e := range ir.Callers(c.G, H) {
			if e.Site == nil || !c.P.IsLib(e.Caller.Func) {
				continue
			}
			args := e.Site.Common().Args
			set := map[string]bool{}
			for _, el := range variadicElems(args[len(args)-1]) {
				if el == nil {
					continue
				}
				if oc := originCall(el); oc != nil {
					if sc := ir.StaticCallee(oc); sc != nil {
						if f, ok := setter[sc]; ok {
							set[f] = true
						}
					}
				}
			}
			var fields []string
			for f := range fallback {
				fields = append(fields, f)
			}
			sort.Strings(fields)
			for _, f := range fields {
				n++
				c.R.Check(set[f], "R-one-registry", f+" supplied by "+fname(e.Caller.Func), c.Pos(e.Site.Pos()), "the caller hands its own registry to the dispatcher",
					sprintf("%s builds the dispatcher with %s but passes no option setting %s: %s falls back to a fresh, empty registry, so what is registered through the server's API is invisible to requests", fname(e.Caller.Func), fname(H), f, fname(H)))
			}
		}
	}
	c.R.Min("R-one-registry", 4)
	_ = n
}

// ---------------------------------------------------------------- R-handler-unlocked
// No registry lock is held while user code (a tool / prompt / resource handler, a filter) runs: a handler that
// registers something itself would deadlock on the registry's RWMutex, and a slow handler would stall every
// registration (and, once a writer waits, every other reader).
func c12NoLockAcrossHandler(c *Ctx, ri *registryInfo) {
	n := 0
	for _, fn := range c.P.LibFns {
		ir.EachInstr(fn, func(_ *ssa.BasicBlock, _ int, in ssa.Instruction) {
			call, ok := in.(*ssa.Call)
			if !ok {
				return
			}
			cb := userCallbackCall(c, call)
			if cb == "" {
				return
			}
			var held []string
			for k := range c.Locks().At(call) {
				owner := k
				if i := strings.LastIndex(k, "."); i > 0 {
					owner = k[:i]
				}
				if ri.owners[owner] {
					held = append(held, k)
				}
			}
			sort.Strings(held)
			n++
			c.R.Check(len(held) == 0, "R-handler-unlocked", cb+" called by "+fname(fn), c.Pos(call.Pos()), "no registry lock held while user code runs",
				sprintf("%s runs user code (%s) while holding %v: a handler that registers or unregisters anything deadlocks on that lock, and a slow handler blocks every registration and, behind a waiting writer, every list and call", fname(fn), cb, held))
		})
	}
	c.R.Min("R-handler-unlocked", 4)
	_ = n
}

// c12LookupChecked (R-lookup-checked): an entry looked up in a registry may have been unregistered a moment earlier,
// also when an earlier lookup of the same request found it. Every dereference of a looked-up entry (pointer-valued
// registry map) is therefore reachable only through the lookup's own ok result, or a nil test of the entry.

// mapLookup describes a lookup in a map held in a struct member: `x.m[k]` written in place, or made through a lookup
// accessor — a library method whose every return hands back one such lookup of a member of its receiver keyed by one
// of its parameters (`func (m *T) lookupLocked(k string) (*E, bool) { e, ok := m.tbl[k]; return e, ok }`).
type mapLookup struct {
	field   string     // "Type.member"
	typ     types.Type // the member's type
	key     ssa.Value  // in the function that contains the lookup (or the accessor call)
	commaOk bool
}

func mapLookupOf(c *Ctx, v ssa.Value) (mapLookup, bool) {
	direct := func(lk *ssa.Lookup) (mapLookup, bool) {
		ld, ok := lk.X.(*ssa.UnOp)
		if !ok {
			return mapLookup{}, false
		}
		fa, ok := ld.X.(*ssa.FieldAddr)
		if !ok {
			return mapLookup{}, false
		}
		key, _, typ, _ := ir.FullField(fa)
		if key == "" {
			return mapLookup{}, false
		}
		return mapLookup{key, typ, lk.Index, lk.CommaOk}, true
	}
	switch x := v.(type) {
	case *ssa.Lookup:
		return direct(x)
	case *ssa.Call:
		sc := ir.StaticCallee(x)
		if sc == nil || !c.P.IsLib(sc) || sc.Signature.Recv() == nil || len(sc.Blocks) == 0 || len(sc.Blocks) > 2 {
			return mapLookup{}, false
		}
		var the *ssa.Lookup
		n := 0
		ir.EachInstr(sc, func(_ *ssa.BasicBlock, _ int, in ssa.Instruction) {
			switch y := in.(type) {
			case *ssa.Lookup:
				the = y
				n++
			case *ssa.Call, *ssa.Store, *ssa.MapUpdate, *ssa.Go, *ssa.Defer, *ssa.Send:
				n += 100 // anything but a pure lookup disqualifies
			}
		})
		if n != 1 {
			return mapLookup{}, false
		}
		ml, ok := direct(the)
		if !ok {
			return mapLookup{}, false
		}
		kp, ok := the.Index.(*ssa.Parameter)
		if !ok {
			return mapLookup{}, false
		}
		// every result is the lookup or one of its two halves
		fine := true
		ir.EachInstr(sc, func(blk *ssa.BasicBlock, _ int, in ssa.Instruction) {
			ret, ok := in.(*ssa.Return)
			if !ok || blk == sc.Recover {
				return
			}
			for _, r := range ret.Results {
				switch z := r.(type) {
				case *ssa.Extract:
					if z.Tuple != ssa.Value(the) {
						fine = false
					}
				case *ssa.Lookup:
					if z != the {
						fine = false
					}
				default:
					fine = false
				}
			}
		})
		if !fine {
			return mapLookup{}, false
		}
		for i, q := range sc.Params {
			if q == kp && i < len(x.Call.Args) {
				ml.key = x.Call.Args[i]
				ml.commaOk = sc.Signature.Results().Len() == 2
				return ml, true
			}
		}
	}
	return mapLookup{}, false
}

// mapLookupAccessor: fn itself is a lookup accessor (see mapLookupOf).
func mapLookupAccessor(c *Ctx, fn *ssa.Function) (string, bool) {
	for _, e := range ir.Callers(c.G, fn) {
		if call, ok := e.Site.(*ssa.Call); ok && ir.StaticCallee(call) == fn {
			if ml, ok := mapLookupOf(c, call); ok {
				return ml.field, true
			}
		}
	}
	return "", false
}

func c12LookupChecked(c *Ctx, ri *registryInfo) {
	n := 0
	for _, fn := range c.P.LibFns {
		if c.InitOnly()[fn] {
			continue
		}
		cnt := map[string]int{}
		ir.EachInstr(fn, func(_ *ssa.BasicBlock, _ int, in ssa.Instruction) {
			lk, ok := in.(ssa.Value)
			if !ok {
				return
			}
			ml, ok := mapLookupOf(c, lk)
			if !ok || lk.Referrers() == nil {
				return
			}
			key, typ := ml.field, ml.typ
			if !ri.maps[key] {
				return
			}
			if _, isCall := in.(*ssa.Call); !isCall && fn.Signature.Recv() != nil {
				// (the lookup inside an accessor is judged where the accessor is called)
				if _, isAcc := mapLookupAccessor(c, fn); isAcc {
					return
				}
			}
			m, ok := typ.Underlying().(*types.Map)
			if !ok {
				return
			}
			if _, isPtr := m.Elem().Underlying().(*types.Pointer); !isPtr {
				return
			}
			var val, okv ssa.Value = lk, nil
			if ml.commaOk {
				val = nil
				for _, r := range *lk.Referrers() {
					if ex, ok := r.(*ssa.Extract); ok {
						if ex.Index == 0 {
							val = ex
						} else {
							okv = ex
						}
					}
				}
			}
			if val == nil || val.Referrers() == nil {
				return
			}
			for _, r := range *val.Referrers() {
				deref := false
				switch x := r.(type) {
				case *ssa.FieldAddr:
					deref = x.X == val
				case *ssa.UnOp:
					deref = x.Op == token.MUL && x.X == val
				}
				if !deref {
					continue
				}
				guarded := false
				for _, g := range flow.Guards(fn, r.Block()) {
					cond, want := g.If.Cond, g.Branch
					for {
						if u, ok := cond.(*ssa.UnOp); ok && u.Op == token.NOT {
							cond, want = u.X, !want
							continue
						}
						break
					}
					if okv != nil && cond == okv && want {
						guarded = true
					}
					if bin, ok := cond.(*ssa.BinOp); ok && (bin.X == val && ir.IsNilConst(bin.Y) || bin.Y == val && ir.IsNilConst(bin.X)) {
						if bin.Op == token.NEQ && want || bin.Op == token.EQL && !want {
							guarded = true
						}
					}
				}
				n++
				construct := "entry of " + key + " dereferenced in " + fname(fn)
				cnt[construct]++
				if cnt[construct] > 1 {
					construct = sprintf("%s#%d", construct, cnt[construct])
				}
				c.R.Check(guarded, "R-lookup-checked", construct, c.Pos(r.Pos()), "the dereference is reachable only when this lookup found the entry",
					sprintf("%s dereferences the entry it looked up in %s without testing this lookup's result: an Unregister between an earlier existence check and this lookup leaves nil here and the request panics", fname(fn), key))
			}
		})
	}
	c.R.Min("R-lookup-checked", 3)
}

// c12DerivedCache (R-cache-invalidated): when a registry owner keeps data derived from its registry in another member
// (a cached list, a snapshot with a validity flag or version), every mutation of the registry must, on every path,
// also write one of the members the cache is validated by; otherwise a replaced or removed entry keeps being served.
// The cache is discovered, not named: a function of the owner that reads a registry field, mutates none, and writes
// some other member of the owner.
func c12DerivedCache(c *Ctx, ri *registryInfo, accs []Access) {
	type fo struct {
		fn    *ssa.Function
		owner string
	}
	reads, mutates := map[fo]bool{}, map[fo]bool{}
	others := map[fo][]Access{}
	registry := map[string]bool{}
	for _, a := range accs {
		if a.Init || a.Local || !ri.owners[a.Owner] {
			continue
		}
		k := fo{a.Fn, a.Owner}
		// (ri.fields also lists every slice member the registration API stores to — the order slices, but a cached list
		// that registration resets as well; only maps and slices of plain keys are the registry proper here)
		if ri.maps[a.Field] || ri.fields[a.Field] && !holdsEntries(a.Type) {
			registry[a.Field] = true
			if a.Write {
				mutates[k] = true
			} else {
				reads[k] = true
			}
		} else {
			others[k] = append(others[k], a)
		}
	}
	validity := map[string]map[string]bool{} // owner -> members a cache is validated by
	cacheFn := map[string]*ssa.Function{}
	source := map[string]map[string]bool{} // owner -> registry fields the cache is built from
	for k, os := range others {
		if !reads[k] || mutates[k] {
			continue
		}
		wrote := false
		for _, a := range os {
			wrote = wrote || a.Write && holdsEntries(a.Type)
		}
		if !wrote {
			continue
		}
		if validity[k.owner] == nil {
			validity[k.owner] = map[string]bool{}
		}
		for _, a := range os {
			validity[k.owner][a.Field] = true
		}
		for _, a := range accs {
			if a.Fn == k.fn && a.Owner == k.owner && registry[a.Field] {
				if source[k.owner] == nil {
					source[k.owner] = map[string]bool{}
				}
				source[k.owner][a.Field] = true
			}
		}
		if cacheFn[k.owner] == nil || fname(k.fn) < fname(cacheFn[k.owner]) {
			cacheFn[k.owner] = k.fn
		}
	}
	var owners []string
	for o := range validity {
		owners = append(owners, o)
	}
	sort.Strings(owners)
	c.R.Extra["derived_caches"] = owners
	for _, o := range owners {
		cnt := map[string]int{}
		for _, a := range accs {
			if a.Init || a.Local || a.Owner != o || !source[o][a.Field] || !a.Write {
				continue
			}
			ub := a.Instr.Block()
			ok := false
			for _, w := range accs {
				if w.Fn != a.Fn || w.Owner != o || !w.Write || !validity[o][w.Field] {
					continue
				}
				wb := w.Instr.Block()
				if wb == ub || wb.Dominates(ub) {
					ok = true
					break
				}
				// after the mutation on every path: no exit reachable from the mutation without passing the write
				reach := flow.BlocksReachableAvoiding(ub, map[*ssa.BasicBlock]bool{wb: true})
				exit := false
				for b := range reach {
					if len(b.Succs) == 0 {
						exit = true
					}
				}
				if !exit {
					ok = true
					break
				}
			}
			construct := a.Kind + " of " + a.Field + " in " + fname(a.Fn)
			cnt[construct]++
			if cnt[construct] > 1 {
				construct = sprintf("%s#%d", construct, cnt[construct])
			}
			var vs []string
			for f := range validity[o] {
				vs = append(vs, f)
			}
			sort.Strings(vs)
			c.R.Check(ok, "R-cache-invalidated", construct, c.Pos(a.Pos), "every path through the mutation also writes a member the derived cache is validated by",
				sprintf("%s keeps data derived from its registry (built in %s, validated by %v), but this %s of %s in %s is not accompanied on every path by a write to one of those members: list keeps serving the replaced or removed entry while call/read already use the new one",
					o, fname(cacheFn[o]), vs, a.Kind, a.Field, fname(a.Fn)))
		}
	}
}

// holdsEntries: a slice or map whose elements are (pointers to) structs or interfaces — derived entry data, as opposed to
// a slice of names.
func holdsEntries(t types.Type) bool {
	var elem types.Type
	switch x := t.Underlying().(type) {
	case *types.Slice:
		elem = x.Elem()
	case *types.Map:
		elem = x.Elem()
	default:
		return false
	}
	if p, ok := elem.Underlying().(*types.Pointer); ok {
		elem = p.Elem()
	}
	switch elem.Underlying().(type) {
	case *types.Struct, *types.Interface:
		return true
	}
	return false
}

// freshRecord: v is a record allocated for this store — here, or by every library caller that hands it in.
func freshRecord(c *Ctx, fn *ssa.Function, v ssa.Value, d int) bool {
	v = ir.Unwrap(v)
	if al, ok := v.(*ssa.Alloc); ok && al.Heap {
		return true
	}
	p, ok := v.(*ssa.Parameter)
	if !ok || d > 2 {
		return false
	}
	idx := -1
	for i, q := range fn.Params {
		if q == p {
			idx = i
		}
	}
	n := 0
	for _, e := range ir.Callers(c.G, fn) {
		if e.Site == nil || !c.P.IsLib(e.Caller.Func) {
			continue
		}
		args := e.Site.Common().Args
		off := 0
		if e.Site.Common().IsInvoke() {
			off = 1
		}
		if idx-off < 0 || idx-off >= len(args) || !freshRecord(c, e.Caller.Func, args[idx-off], d+1) {
			return false
		}
		n++
	}
	return n > 0
}

// lockOwnerNamed: the named struct type a lock key "T.mu" belongs to.
func lockOwnerNamed(c *Ctx, lockKey string) *types.Named {
	i := strings.LastIndex(lockKey, ".")
	if i < 0 {
		return nil
	}
	owner := lockKey[:i]
	for _, pk := range c.P.Pkgs {
		sc := pk.Types.Scope()
		for _, name := range sc.Names() {
			if tn, ok := sc.Lookup(name).(*types.TypeName); ok {
				if n, ok := tn.Type().(*types.Named); ok && ir.TypeKey(n) == owner {
					return n
				}
			}
		}
	}
	return nil
}

// holdsMemberOf: struct type T has a member of type M or *M.
func holdsMemberOf(c *Ctx, T, M *types.Named) bool {
	if T == nil || M == nil {
		return false
	}
	st, ok := T.Underlying().(*types.Struct)
	if !ok {
		return false
	}
	for i := 0; i < st.NumFields(); i++ {
		ft := st.Field(i).Type()
		if p, ok := ft.(*types.Pointer); ok {
			ft = p.Elem()
		}
		if types.Identical(ft, M) {
			return true
		}
	}
	return false
}

// c12PublishedTables (R-published-immutable): a table kept copy-on-write — published through an atomic.Value or
// atomic.Pointer member and read without a lock — must never be changed in place: every update builds a new map and
// stores it. A map obtained from Load() is therefore never the operand of a map update or delete. Returns the number
// of such members found.
func c12PublishedTables(c *Ctx) int {
	members := map[string]bool{}
	fromLoad := func(v ssa.Value) (string, bool) {
		for i := 0; i < 8 && v != nil; i++ {
			switch x := v.(type) {
			case *ssa.TypeAssert:
				v = x.X
			case *ssa.Extract:
				v = x.Tuple
			case *ssa.UnOp:
				v = x.X // *p of an atomic.Pointer[map] load
			case *ssa.Phi:
				v = nil
				for _, e := range x.Edges {
					if _, isMake := e.(*ssa.MakeMap); !isMake {
						v = e
					}
				}
			case *ssa.Call:
				n := ir.CallName(x)
				if strings.HasSuffix(n, ").Load") && strings.Contains(n, "sync/atomic.") && len(x.Call.Args) > 0 {
					if fa, ok := x.Call.Args[0].(*ssa.FieldAddr); ok {
						key, _, _, _ := ir.FullField(fa)
						return key, true
					}
					return "", true
				}
				// a library getter that returns the loaded table
				sc := ir.StaticCallee(x)
				if sc == nil || !c.P.IsLib(sc) || i > 4 {
					return "", false
				}
				var rv ssa.Value
				ir.EachInstr(sc, func(b *ssa.BasicBlock, _ int, in ssa.Instruction) {
					if r, ok := in.(*ssa.Return); ok && b != sc.Recover && len(ir.Results(r)) > 0 {
						rv = ir.Results(r)[0]
					}
				})
				v = rv
			default:
				return "", false
			}
		}
		return "", false
	}
	n := 0
	for _, fn := range c.P.LibFns {
		cnt := 0
		ir.EachInstr(fn, func(_ *ssa.BasicBlock, _ int, in ssa.Instruction) {
			var m ssa.Value
			what := ""
			switch x := in.(type) {
			case *ssa.MapUpdate:
				m, what = x.Map, "stores into"
			case *ssa.Call:
				if b, ok := x.Call.Value.(*ssa.Builtin); ok && b.Name() == "delete" && len(x.Call.Args) == 2 {
					m, what = x.Call.Args[0], "deletes from"
				}
			case *ssa.Lookup:
				if key, ok := fromLoad(x.X); ok && key != "" {
					members[key] = true
				}
				return
			}
			if m == nil {
				return
			}
			key, ok := fromLoad(m)
			if !ok {
				return
			}
			if key != "" {
				members[key] = true
			}
			n++
			cnt++
			c.R.Violate("R-published-immutable", sprintf("%s a published table in %s #%d", what, fname(fn), cnt), c.Pos(in.Pos()),
				sprintf("%s %s the map it obtained from an atomic Load (%s): readers use that very map without a lock, so this is an unsynchronised map write against their reads (fatal 'concurrent map read and map write'); a copy-on-write table must be copied, changed and stored", fname(fn), what, key))
		})
	}
	if n == 0 {
		var ks []string
		for k := range members {
			ks = append(ks, k)
		}
		sort.Strings(ks)
		c.R.Hold("R-published-immutable", "no map obtained from an atomic Load is changed in place", "", sprintf("copy-on-write tables: %v", ks))
	}
	return len(members)
}

// c12RowsUnconditional (R-rows-unconditional): the rows of a method dispatch table are installed unconditionally. A row
// that depends on run-time state (a capability flag that is refreshed only at initialize) makes an entry that is
// registered while the server is serving unreachable: list, read and get answer "method not found".
func c12RowsUnconditional(c *Ctx) {
	n := 0
	for fn, rows := range c.MapLiteralDispatch() {
		if clientSide(c, fn) {
			continue
		}
		var pd *flow.PostDom
		for _, r := range rows {
			if r.At == nil || r.At.Parent() != fn {
				continue
			}
			if pd == nil {
				pd = flow.NewPostDom(fn)
			}
			n++
			deps := pd.ControlDepsTransitive(r.At.Block())
			if fn.Name() == "init" && fn.Synthetic != "" {
				deps = nil // a package-level table: the package initialiser runs once (its only branch is the init guard)
			}
			c.R.Check(len(deps) == 0, "R-rows-unconditional", sprintf("row %q of the table built in %s", r.Method, fname(fn)), c.Pos(r.Pos),
				"installed on every path",
				sprintf("%s installs the row for %q only on some paths: whether the method is served then depends on run-time state, and an entry registered while serving is answered with 'method not found'", fname(fn), r.Method))
		}
	}
	if n == 0 {
		c.R.Hold("R-rows-unconditional", "no dispatch table is built from map updates", "", "")
	}
}

// ---------------------------------------------------------------- R-order-paired
// A registry that answers its listing in registration order keeps the keys in an order slice beside the map. The two
// stay consistent only if a key is appended to the slice exactly when it is new to THAT map: every append of a key to
// an order slice in a function that stores the same key into a registry map must be reachable only through the
// "not found" edge of a comma-ok lookup of that key in that very map (a guard that consults another map is always
// or never true: re-registration then lists the entry twice, or a new entry not at all).
func samePath(a, b ssa.Value, d int) bool {
	if a == b {
		return true
	}
	if d > 6 {
		return false
	}
	switch x := a.(type) {
	case *ssa.UnOp:
		y, ok := b.(*ssa.UnOp)
		return ok && x.Op == y.Op && samePath(x.X, y.X, d+1)
	case *ssa.FieldAddr:
		y, ok := b.(*ssa.FieldAddr)
		return ok && x.Field == y.Field && samePath(x.X, y.X, d+1)
	case *ssa.Field:
		y, ok := b.(*ssa.Field)
		return ok && x.Field == y.Field && samePath(x.X, y.X, d+1)
	case *ssa.ChangeType:
		y, ok := b.(*ssa.ChangeType)
		return ok && samePath(x.X, y.X, d+1)
	}
	return false
}

func c12OrderPaired(c *Ctx, ri *registryInfo, accs []Access) {
	fieldKeyOf := func(v ssa.Value) string {
		u, ok := v.(*ssa.UnOp)
		if !ok {
			return ""
		}
		fa, ok := u.X.(*ssa.FieldAddr)
		if !ok {
			return ""
		}
		key, _, _, _ := ir.FullField(fa)
		return key
	}
	// the key appended by `append(order, k)`: the call's second operand is a one-element slice literal [k]
	appendedKey := func(call *ssa.Call) ssa.Value {
		if b, ok := call.Call.Value.(*ssa.Builtin); !ok || b.Name() != "append" || len(call.Call.Args) != 2 {
			return nil
		}
		sl, ok := call.Call.Args[1].(*ssa.Slice)
		if !ok {
			return nil
		}
		al, ok := sl.X.(*ssa.Alloc)
		if !ok || al.Referrers() == nil {
			return nil
		}
		var key ssa.Value
		for _, r := range *al.Referrers() {
			if ia, ok := r.(*ssa.IndexAddr); ok && ia.Referrers() != nil {
				for _, rr := range *ia.Referrers() {
					if s2, ok := rr.(*ssa.Store); ok && s2.Addr == ia {
						key = s2.Val
					}
				}
			}
		}
		return key
	}
	n := 0
	for _, a := range accs {
		if !ri.fields[a.Field] || ri.maps[a.Field] || a.Kind != "store" || a.Init || a.Local {
			continue
		}
		st, ok := a.Instr.(*ssa.Store)
		if !ok {
			continue
		}
		call, ok := st.Val.(*ssa.Call)
		if !ok {
			continue
		}
		// where the append happens (the registering function, or a helper it hands map and order slice to), the
		// appended key there, and how a map operand there resolves to a registry member
		host, at, key := a.Fn, call, appendedKey(call)
		mapField := fieldKeyOf
		if key != nil && fieldKeyOf(call.Call.Args[0]) != a.Field {
			continue
		}
		if key == nil {
			sc := ir.StaticCallee(call)
			if sc == nil || !c.P.IsLib(sc) {
				continue
			}
			orderParam := -1
			for i, arg := range call.Call.Args {
				if fieldKeyOf(arg) == a.Field && i < len(sc.Params) {
					orderParam = i
				}
			}
			if orderParam < 0 {
				continue
			}
			var inner *ssa.Call
			ir.EachInstr(sc, func(_ *ssa.BasicBlock, _ int, in ssa.Instruction) {
				if ic, ok := in.(*ssa.Call); ok && appendedKey(ic) != nil && ic.Call.Args[0] == ssa.Value(sc.Params[orderParam]) {
					inner = ic
				}
			})
			if inner == nil {
				continue // the helper does not append a key (a removal helper)
			}
			host, at, key = sc, inner, appendedKey(inner)
			site := call
			mapField = func(v ssa.Value) string {
				for i, q := range sc.Params {
					if ssa.Value(q) == v && i < len(site.Call.Args) {
						return fieldKeyOf(site.Call.Args[i])
					}
				}
				return ""
			}
		}
		// the registry map the host stores the key into
		stored := ""
		ir.EachInstr(host, func(_ *ssa.BasicBlock, _ int, in ssa.Instruction) {
			if mu, ok := in.(*ssa.MapUpdate); ok && samePath(mu.Key, key, 0) {
				if k := mapField(mu.Map); ri.maps[k] {
					stored = k
				}
			}
		})
		if stored == "" {
			continue
		}
		n++
		construct := sprintf("append to %s in %s", a.Field, fname(a.Fn))
		guardedBy, other := false, ""
		for _, g := range flow.Guards(host, at.Block()) {
			// `m[k] == nil` for a map of pointers whose entries are never nil says "not found" as well
			if v, op, isNil := nilCompare(g.If.Cond); isNil {
				if lk, ok := ir.Unwrap(v).(*ssa.Lookup); ok && !lk.CommaOk && (op == token.EQL) == g.Branch {
					if mapField(lk.X) == stored && samePath(lk.Index, key, 0) {
						guardedBy = true
					} else {
						other = mapField(lk.X)
					}
				} else if ml, ok := mapLookupOf(c, ir.Unwrap(v)); ok && !ml.commaOk && (op == token.EQL) == g.Branch {
					if ml.field == stored && samePath(ml.key, key, 0) {
						guardedBy = true
					} else {
						other = ml.field
					}
				}
				continue
			}
			// a presence accessor: `if !m.has(k)` where has returns the found-flag of its lookup
			{
				cnd, negc := g.If.Cond, false
				if u, isNot := cnd.(*ssa.UnOp); isNot && u.Op == token.NOT {
					cnd, negc = u.X, true
				}
				if pc, isCall := cnd.(*ssa.Call); isCall && ir.TypeStr(pc.Type()) == "bool" {
					elemIsBool := false
					if ml, ok := mapLookupOf(c, pc); ok {
						if mt, isMap := ml.typ.Underlying().(*types.Map); isMap {
							elemIsBool = ir.TypeStr(mt.Elem()) == "bool"
						}
					}
					// (the accessor's only result is a bool and the map's elements are not: it is the found-flag)
					if ml, ok := mapLookupOf(c, pc); ok && !elemIsBool {
						if (g.Branch && negc) || (!g.Branch && !negc) {
							if ml.field == stored && samePath(ml.key, key, 0) {
								guardedBy = true
							} else {
								other = ml.field
							}
						}
						continue
					}
				}
			}
			ex, ok := ir.Unwrap(g.If.Cond).(*ssa.Extract)
			neg := false
			if !ok {
				if u, isNot := g.If.Cond.(*ssa.UnOp); isNot && u.Op == token.NOT {
					ex, ok = ir.Unwrap(u.X).(*ssa.Extract)
					neg = true
				}
			}
			if !ok || ex.Index != 1 {
				continue
			}
			notFound := (g.Branch && neg) || (!g.Branch && !neg)
			if !notFound {
				continue
			}
			field, lkey := "", ssa.Value(nil)
			if lk, ok := ex.Tuple.(*ssa.Lookup); ok && lk.CommaOk {
				field, lkey = mapField(lk.X), lk.Index
			} else if ml, ok := mapLookupOf(c, ex.Tuple); ok && ml.commaOk {
				field, lkey = ml.field, ml.key
			} else {
				continue
			}
			if field == stored && samePath(lkey, key, 0) {
				guardedBy = true
			} else {
				other = field
			}
		}
		why := "the append is not conditional on the key being new"
		if other != "" {
			why = sprintf("the append is conditional on a lookup in %s, not in the map the key is stored into", other)
		}
		c.R.Check(guardedBy, "R-order-paired", construct, c.Pos(st.Pos()),
			sprintf("reached only when the key is not yet in %s", stored),
			sprintf("%s appends the key to the order slice %s and stores it into %s, but %s: registering a key again lists it twice (or a new key is never listed), a listing that matches no state of the registry", fname(a.Fn), a.Field, stored, why))
	}
	c.R.Min("R-order-paired", 3)
	if n == 0 {
		c.R.Break("R-order-paired: no append of a key to a registry order slice found")
	}
}

// ---------------------------------------------------------------- R-window-ordered
// A list that is built by ranging over a Go map comes out in a different order on every call. Answering with all of
// it is fine (the order of tools/list is unspecified); cutting a window out of it by position — a page addressed by an
// offset, "the first N" — is not: the window of the next call is cut from another permutation, so a client that pages
// through the list sees some entries twice and others never, although nothing was registered or removed. A slice
// expression with a lower bound that is not the constant 0, or an upper bound that is not the slice's own length,
// must therefore not be applied to a value that originates from such an unordered producer.
func c12WindowOrdered(c *Ctx) {
	// unordered producers: return a slice appended to inside a range over a map, with no sorting in the function
	unordered := map[*ssa.Function]bool{}
	for _, fn := range c.P.LibFns {
		res := fn.Signature.Results()
		if res.Len() == 0 {
			continue
		}
		if _, isSlice := res.At(0).Type().Underlying().(*types.Slice); !isSlice {
			continue
		}
		overMap, sorts := false, false
		ir.EachInstr(fn, func(_ *ssa.BasicBlock, _ int, in ssa.Instruction) {
			switch x := in.(type) {
			case *ssa.Range:
				if _, isMap := x.X.Type().Underlying().(*types.Map); isMap {
					overMap = true
				}
			case *ssa.Call:
				if n := ir.CallName(x); strings.HasPrefix(n, "sort.") || strings.HasPrefix(n, "slices.Sort") {
					sorts = true
				}
			}
		})
		if !overMap || sorts {
			continue
		}
		// the returned slice is one that is appended to in the function
		appends := false
		ir.EachInstr(fn, func(_ *ssa.BasicBlock, _ int, in ssa.Instruction) {
			if call, ok := in.(*ssa.Call); ok {
				if b, ok := call.Call.Value.(*ssa.Builtin); ok && b.Name() == "append" && flow.InCycle(call.Block()) {
					appends = true
				}
			}
		})
		if appends {
			unordered[fn] = true
		}
	}
	var origin func(fn *ssa.Function, v ssa.Value, d int, seen map[ssa.Value]bool) *ssa.Function
	origin = func(fn *ssa.Function, v ssa.Value, d int, seen map[ssa.Value]bool) *ssa.Function {
		if v == nil || d > 8 || seen[v] {
			return nil
		}
		seen[v] = true
		switch x := v.(type) {
		case *ssa.Call:
			if sc := ir.StaticCallee(x); sc != nil {
				if unordered[sc] || (sc.Origin() != nil && unordered[sc.Origin()]) {
					return sc
				}
			}
			// a filter / helper that returns a slice made from a slice it is given
			for _, a := range x.Call.Args {
				if _, isSlice := a.Type().Underlying().(*types.Slice); isSlice {
					if u := origin(fn, a, d+1, seen); u != nil {
						return u
					}
				}
			}
		case *ssa.Phi:
			for _, e := range x.Edges {
				if u := origin(fn, e, d+1, seen); u != nil {
					return u
				}
			}
		case *ssa.Extract:
			return origin(fn, x.Tuple, d+1, seen)
		case *ssa.Slice:
			return origin(fn, x.X, d+1, seen)
		case *ssa.UnOp:
			if u := unspill(x); u != ssa.Value(x) {
				return origin(fn, u, d+1, seen)
			}
		case *ssa.Parameter:
			idx := -1
			for i, q := range fn.Params {
				if q == x {
					idx = i
				}
			}
			for _, e := range ir.Callers(c.G, fn) {
				if e.Site == nil || !c.P.IsLib(e.Caller.Func) {
					continue
				}
				cc := e.Site.Common()
				ai := idx
				if cc.IsInvoke() {
					ai--
				}
				if ai >= 0 && ai < len(cc.Args) {
					if u := origin(e.Caller.Func, cc.Args[ai], d+1, seen); u != nil {
						return u
					}
				}
			}
		}
		return nil
	}
	n := 0
	for _, fn := range c.P.LibFns {
		if clientSide(c, fn) || unordered[fn] {
			continue
		}
		ir.EachInstr(fn, func(_ *ssa.BasicBlock, _ int, in ssa.Instruction) {
			sl, ok := in.(*ssa.Slice)
			if !ok {
				return
			}
			if _, isSlice := sl.X.Type().Underlying().(*types.Slice); !isSlice {
				return
			}
			lowZero := sl.Low == nil
			if k, ok := sl.Low.(*ssa.Const); ok {
				if v, ok2 := ir.ConstInt(k); ok2 && v == 0 {
					lowZero = true
				}
			}
			if lowZero && sl.High == nil {
				return
			}
			u := origin(fn, sl.X, 0, map[ssa.Value]bool{})
			if u == nil {
				return
			}
			n++
			c.R.Violate("R-window-ordered", sprintf("window cut out of the result of %s in %s", fname(u), fname(fn)), c.Pos(sl.Pos()),
				sprintf("%s cuts a window by position out of a list that %s builds by ranging over a map: the order of that list changes from call to call, so successive windows (pages) are cut from different permutations — a client paging through the list sees some entries twice and others never, a list that matches no state of the registry", fname(fn), fname(u)))
		})
	}
	names := []string{}
	for f := range unordered {
		if !clientSide(c, f) {
			names = append(names, fname(f))
		}
	}
	sort.Strings(names)
	if len(names) == 0 {
		c.R.Break("R-window-ordered: no list producer ranging over a map found")
	}
	c.R.Hold("R-window-ordered", "lists built by ranging over a map are answered whole", "", sprintf("unordered producers: %v; no positional window is cut out of their results", names))
}

// ---------------------------------------------------------------- R-replace-one-section
// Replacing a registered entry is one critical section of the registry (the store of the new record over the old one).
// A function that first calls something that DELETES from a registry map and then something that INSERTS into the same
// map — each correctly locked on its own — leaves a window in which a name that the application never unregistered is
// absent: a concurrent call of that tool is answered "not found", a concurrent listing omits it.
func c12ReplaceOneSection(c *Ctx, ri *registryInfo, accs []Access) {
	deleters, inserters := map[*ssa.Function]string{}, map[*ssa.Function]string{}
	for _, a := range accs {
		if !ri.maps[a.Field] || a.Init || a.Local {
			continue
		}
		switch a.Kind {
		case "map-delete":
			deleters[a.Fn] = a.Field
		case "map-update":
			inserters[a.Fn] = a.Field
		}
	}
	reachField := func(call ssa.CallInstruction, set map[*ssa.Function]string) string {
		for _, cal := range ir.Callees(c.G, call) {
			if !c.P.IsLib(cal) {
				continue
			}
			for f := range c.ReachSync(cal) {
				if k := set[f]; k != "" {
					return k
				}
			}
		}
		return ""
	}
	n := 0
	for _, fn := range c.P.LibFns {
		if clientSide(c, fn) || deleters[fn] != "" || inserters[fn] != "" {
			continue // (a function that touches the map itself is judged by R-snapshot / R-atomic-replace)
		}
		type site struct {
			in    ssa.Instruction
			field string
		}
		var dels, inss []site
		ir.EachInstr(fn, func(_ *ssa.BasicBlock, _ int, in ssa.Instruction) {
			call, ok := in.(*ssa.Call)
			if !ok {
				return
			}
			if k := reachField(call, deleters); k != "" {
				dels = append(dels, site{in, k})
			}
			if k := reachField(call, inserters); k != "" {
				inss = append(inss, site{in, k})
			}
		})
		if len(inss) == 0 {
			continue
		}
		n++
		for _, d := range dels {
			for _, i := range inss {
				if d.in != i.in && d.field == i.field && flow.Reaches(d.in, i.in) {
					c.R.Violate("R-replace-one-section", sprintf("%s replaced in two steps by %s", d.field, fname(fn)), c.Pos(i.in.Pos()),
						sprintf("%s removes an entry from %s (at %s) and then inserts into it in a separate critical section: between the two a name that was never unregistered is absent — a concurrent call is answered `not found`, a concurrent listing shows a set the registry never held from the registrant's point of view", fname(fn), d.field, c.Pos(d.in.Pos())))
				}
			}
		}
	}
	c.R.Hold("R-replace-one-section", "callers of the registration functions", "", sprintf("%d functions that call an inserting registry function examined; none removes from the same map first", n))
	if n < 5 {
		c.R.Break("R-replace-one-section: only %d callers of inserting registry functions found", n)
	}
}
