// Package lockset computes, for every instruction of the library, the set of mutexes that are
// certainly held when it executes (a forward must-analysis; meet = intersection).
//
// Lock identity is type-level: the struct type and field that hold the mutex ("toolManager.mu").
// Pointer-to-mutex fields are resolved through their unique initialiser ("sseStream.mu" is
// "&session.writeMu", hence "sseSession.writeMu"). A function's entry lockset is the intersection
// of the locksets at all its synchronous call sites in the library; functions started with `go`,
// deferred calls, calls from outside the library and roots start with nothing held.
// `defer mu.Unlock()` keeps the lock until the function returns.
package lockset

import (
	"go/types"
	"sort"
	"strings"

	"golang.org/x/tools/go/callgraph"
	"golang.org/x/tools/go/ssa"

	"verif/checker/ir"
)

// Held describes one held mutex.
type Held struct {
	Write bool            // exclusive (Lock) rather than shared (RLock)
	Site  ssa.Instruction // the acquiring call when unique within the function, nil when inherited from callers or merged
}

// State maps lock keys to how they are held. A nil *State pointer is "unvisited" (top).
type State map[string]Held

func (s State) clone() State {
	o := make(State, len(s))
	for k, v := range s {
		o[k] = v
	}
	return o
}

// Has reports whether key is held (in any mode).
func (s State) Has(key string) bool { _, ok := s[key]; return ok }

// HasWrite reports whether key is held exclusively.
func (s State) HasWrite(key string) bool { h, ok := s[key]; return ok && h.Write }

// Keys lists the held keys, sorted, with ":R" appended to shared holds.
func (s State) Keys() []string {
	var out []string
	for k, h := range s {
		if h.Write {
			out = append(out, k)
		} else {
			out = append(out, k+":R")
		}
	}
	sort.Strings(out)
	return out
}

func meet(a, b State) State {
	o := State{}
	for k, ha := range a {
		if hb, ok := b[k]; ok {
			h := Held{Write: ha.Write && hb.Write}
			if ha.Site == hb.Site {
				h.Site = ha.Site
			}
			o[k] = h
		}
	}
	return o
}

func equal(a, b State) bool {
	if len(a) != len(b) {
		return false
	}
	for k, ha := range a {
		hb, ok := b[k]
		if !ok || ha != hb {
			return false
		}
	}
	return true
}

// Analysis holds the result.
type Analysis struct {
	prog  *ir.Program
	g     *callgraph.Graph
	alias map[string]string
	entry map[*ssa.Function]State
	top   map[*ssa.Function]bool
	in    map[*ssa.BasicBlock]State
	Iter  int
}

// LockOp classifies a call as a mutex operation.
type LockOp struct {
	Key     string
	Acquire bool
	Write   bool
}

// New runs the analysis over all library functions using call graph g.
func New(prog *ir.Program, g *callgraph.Graph) *Analysis {
	a := &Analysis{prog: prog, g: g, alias: map[string]string{}, entry: map[*ssa.Function]State{},
		top: map[*ssa.Function]bool{}, in: map[*ssa.BasicBlock]State{}}
	a.findAliases()
	for _, fn := range prog.LibFns {
		if a.hasSyncLibCaller(fn) {
			a.top[fn] = true
		} else {
			a.entry[fn] = State{}
		}
	}
	for a.Iter = 0; a.Iter < 40; a.Iter++ {
		changed := false
		next := map[*ssa.Function]State{}
		nextSet := map[*ssa.Function]bool{}
		for _, fn := range prog.LibFns {
			if a.top[fn] {
				continue
			}
			a.flow(fn)
			ir.EachInstr(fn, func(b *ssa.BasicBlock, i int, in ssa.Instruction) {
				call, ok := in.(*ssa.Call)
				if !ok {
					return
				}
				st := a.At(call)
				for _, callee := range ir.Callees(a.g, call) {
					if !prog.IsLib(callee) {
						continue
					}
					if nextSet[callee] {
						next[callee] = meet(next[callee], st)
					} else {
						next[callee] = st.cloneNoSite()
						nextSet[callee] = true
					}
				}
			})
		}
		for _, fn := range prog.LibFns {
			if !a.hasSyncLibCaller(fn) {
				continue
			}
			ns, ok := next[fn]
			if !ok {
				continue // no visited caller yet
			}
			if a.top[fn] {
				delete(a.top, fn)
				a.entry[fn] = ns
				changed = true
			} else if !equal(a.entry[fn], ns) {
				a.entry[fn] = ns
				changed = true
			}
		}
		if !changed {
			break
		}
	}
	// functions only reachable from never-visited code: nothing is known to be held
	for fn := range a.top {
		a.entry[fn] = State{}
		delete(a.top, fn)
		a.flow(fn)
	}
	for _, fn := range prog.LibFns {
		a.flow(fn)
	}
	return a
}

func (s State) cloneNoSite() State {
	o := make(State, len(s))
	for k, v := range s {
		o[k] = Held{Write: v.Write}
	}
	return o
}

// hasSyncLibCaller: fn has at least one plain call (not go/defer) from a library function, and no
// caller outside the library.
func (a *Analysis) hasSyncLibCaller(fn *ssa.Function) bool {
	n := a.g.Nodes[fn]
	if n == nil {
		return false
	}
	any := false
	for _, e := range n.In {
		if e.Site == nil {
			return false
		}
		if _, ok := e.Site.(*ssa.Call); !ok {
			return false // go or defer: starts with nothing held
		}
		if !a.prog.IsLib(e.Caller.Func) {
			return false
		}
		any = true
	}
	return any
}

// Entry is the lockset certainly held when fn starts.
func (a *Analysis) Entry(fn *ssa.Function) State { return a.entry[fn] }

// Classify recognises mutex operations.
func (a *Analysis) Classify(in ssa.Instruction) (LockOp, bool) {
	call, ok := in.(*ssa.Call)
	if !ok {
		return LockOp{}, false
	}
	name := ir.CallName(call)
	var op LockOp
	switch name {
	case "(*sync.Mutex).Lock", "(*sync.RWMutex).Lock":
		op = LockOp{Acquire: true, Write: true}
	case "(*sync.RWMutex).RLock":
		op = LockOp{Acquire: true}
	case "(*sync.Mutex).Unlock", "(*sync.RWMutex).Unlock":
		op = LockOp{Write: true}
	case "(*sync.RWMutex).RUnlock":
		op = LockOp{}
	default:
		return LockOp{}, false
	}
	if len(call.Call.Args) == 0 {
		return LockOp{}, false
	}
	op.Key = a.KeyOf(call.Call.Args[0])
	if op.Key == "" {
		return LockOp{}, false
	}
	return op, true
}

// KeyOf names the mutex a pointer value denotes.
func (a *Analysis) KeyOf(v ssa.Value) string {
	if fa, ok := v.(*ssa.FieldAddr); ok {
		if key, _, typ, _ := ir.FullField(fa); key != "" && ir.IsMutexType(typ) {
			if _, isPtr := typ.(*types.Pointer); !isPtr {
				return a.resolve(key)
			}
		}
	}
	if f, _, ok := ir.LoadedField(v); ok && ir.IsMutexType(f.Type) {
		return a.resolve(f.Key())
	}
	if p := ir.Path(v); p != "" {
		return "path:" + p
	}
	return ""
}

func (a *Analysis) resolve(k string) string {
	for i := 0; i < 4; i++ {
		n, ok := a.alias[k]
		if !ok {
			return k
		}
		k = n
	}
	return k
}

// findAliases: for every struct field of type *sync.Mutex / *sync.RWMutex, if every store to it in
// the library stores the address of one and the same mutex field, record the alias.
func (a *Analysis) findAliases() {
	cands := map[string]map[string]bool{}
	for _, fn := range a.prog.LibFns {
		ir.EachInstr(fn, func(_ *ssa.BasicBlock, _ int, in ssa.Instruction) {
			st, ok := in.(*ssa.Store)
			if !ok {
				return
			}
			f, _, ok := ir.FieldOf(st.Addr)
			if !ok || !ir.IsMutexType(f.Type) {
				return
			}
			if _, isPtr := f.Type.(*types.Pointer); !isPtr {
				return
			}
			tgt := "?"
			if tf, _, ok := ir.FieldOf(st.Val); ok && ir.IsMutexType(tf.Type) {
				tgt = tf.Key()
			}
			if cands[f.Key()] == nil {
				cands[f.Key()] = map[string]bool{}
			}
			cands[f.Key()][tgt] = true
		})
	}
	for k, set := range cands {
		if len(set) == 1 {
			for t := range set {
				if t != "?" {
					a.alias[k] = t
				}
			}
		}
	}
}

// Aliases exposes the pointer-field alias table (for evidence).
func (a *Analysis) Aliases() map[string]string { return a.alias }

func (a *Analysis) flow(fn *ssa.Function) {
	if len(fn.Blocks) == 0 {
		return
	}
	entry := a.entry[fn]
	if entry == nil {
		entry = State{}
	}
	out := map[*ssa.BasicBlock]State{}
	visited := map[*ssa.BasicBlock]bool{}
	work := []*ssa.BasicBlock{fn.Blocks[0]}
	a.in[fn.Blocks[0]] = entry.clone()
	visited[fn.Blocks[0]] = true
	for len(work) > 0 {
		b := work[0]
		work = work[1:]
		st := a.in[b].clone()
		for _, in := range b.Instrs {
			a.apply(st, in)
		}
		if o, ok := out[b]; ok && equal(o, st) {
			continue
		}
		out[b] = st
		for _, s := range b.Succs {
			var ns State
			if !visited[s] {
				ns = st.clone()
				visited[s] = true
			} else {
				ns = meet(a.in[s], st)
				if equal(ns, a.in[s]) {
					continue
				}
			}
			a.in[s] = ns
			work = append(work, s)
		}
	}
}

func (a *Analysis) apply(st State, in ssa.Instruction) {
	op, ok := a.Classify(in)
	if !ok {
		return
	}
	if op.Acquire {
		st[op.Key] = Held{Write: op.Write, Site: in}
	} else {
		delete(st, op.Key)
	}
}

// At returns the lockset certainly held just before in executes.
func (a *Analysis) At(in ssa.Instruction) State {
	b := in.Block()
	base, ok := a.in[b]
	if !ok {
		return State{} // unreachable block
	}
	st := base.clone()
	for _, x := range b.Instrs {
		if x == in {
			break
		}
		a.apply(st, x)
	}
	return st
}

// MutexFields lists "T.f" for every mutex-typed field of struct type T.
func MutexFields(T *types.Named) []string {
	st, ok := T.Underlying().(*types.Struct)
	if !ok {
		return nil
	}
	var out []string
	for i := 0; i < st.NumFields(); i++ {
		f := st.Field(i)
		if ir.IsMutexType(f.Type()) {
			out = append(out, ir.TypeKey(T)+"."+f.Name())
		}
	}
	return out
}

// OwnerOf returns the struct type name of a lock key "T.f".
func OwnerOf(key string) string {
	if i := strings.Index(key, "."); i > 0 && !strings.HasPrefix(key, "path:") {
		return key[:i]
	}
	return ""
}
