package main

import (
	"fmt"
	"os"
	"time"

	"golang.org/x/tools/go/callgraph/cha"
	"golang.org/x/tools/go/callgraph/vta"
	"golang.org/x/tools/go/packages"
	"golang.org/x/tools/go/ssa"
	"golang.org/x/tools/go/ssa/ssautil"
)

func main() {
	t0 := time.Now()
	cfg := &packages.Config{Mode: packages.LoadAllSyntax, Dir: "/repo"}
	pkgs, err := packages.Load(cfg, ".", "./internal/...")
	if err != nil {
		fmt.Println(err)
		os.Exit(2)
	}
	fmt.Println(len(pkgs), time.Since(t0))
	prog, _ := ssautil.AllPackages(pkgs, ssa.InstantiateGenerics)
	prog.Build()
	fmt.Println("ssa", time.Since(t0))
	cg := vta.CallGraph(ssautil.AllFunctions(prog), cha.CallGraph(prog))
	fmt.Println(len(cg.Nodes), time.Since(t0))
}
