// mcpcheck decides structural necessary conditions of the given properties by static analysis of
// the repository's current sources.
package main

import (
	"flag"
	"fmt"
	"os"
	"path/filepath"
	"runtime/debug"
	"strconv"
	"strings"

	"verif/checker/ir"
	"verif/checker/report"
	"verif/checker/rules"
)

func main() {
	prop := flag.String("prop", "", "property id (C01..C20)")
	tier := flag.String("tier", "quick", "quick | thorough | explain")
	repo := flag.String("repo", "/repo", "repository to analyse")
	verif := flag.String("verif", "/verif", "verification directory (evidence, known findings)")
	flag.Parse()

	rule, ok := rules.Registry[*prop]
	if !ok {
		fmt.Printf("CHECK-BROKEN: unknown property %q (have %s)\n", *prop, strings.Join(rules.Props(), " "))
		os.Exit(2)
	}
	seed := int64(0)
	if s := os.Getenv("VERIF_SEED"); s != "" {
		if v, err := strconv.ParseInt(s, 10, 64); err == nil {
			seed = v
		}
	}
	evTier := *tier
	if evTier != "thorough" {
		evTier = "quick"
	}
	abs, _ := filepath.Abs(*repo)
	code := run(*prop, rule, evTier, *tier, abs, *verif, seed)
	os.Exit(code)
}

func run(prop string, rule rules.Rule, evTier, mode, repo, verif string, seed int64) (code int) {
	rep := report.New(prop, evTier, seed)
	defer func() {
		if r := recover(); r != nil {
			fmt.Printf("CHECK-BROKEN: property=%s analysis panic: %v\n", prop, r)
			if os.Getenv("VERIF_DEBUG") != "" {
				debug.PrintStack()
			}
			code = 2
		}
	}()
	p, err := ir.Load(ir.Options{Dir: repo, WithCHA: evTier == "thorough"})
	if err != nil {
		fmt.Printf("CHECK-BROKEN: property=%s cannot load %s: %v\n", prop, repo, err)
		return 2
	}
	known, err := report.LoadKnown(filepath.Join(verif, "known_findings.json"))
	if err != nil {
		fmt.Printf("CHECK-BROKEN: property=%s %v\n", prop, err)
		return 2
	}
	c := &rules.Ctx{P: p, R: rep, G: p.VTA, Tier: evTier}
	rule(c)
	rep.Extra["packages"] = len(p.Pkgs)
	rep.Extra["library_functions_analysed"] = len(p.LibFns)
	rep.Extra["program_functions"] = p.NumAll
	rep.Extra["call_graph"] = map[string]int{"nodes": len(p.VTA.Nodes)}
	if evTier == "thorough" {
		thorough(prop, rule, p, rep, repo, verif, seed)
	}
	if mode == "explain" {
		for _, o := range rep.Obls {
			fmt.Printf("%-9s %-22s %-60s %s  %s\n", o.Status, o.Rule, o.Construct, o.Pos, o.Detail)
		}
	}
	code = rep.Finish(verif, known)
	if mode == "list" {
		for _, o := range rep.Obls {
			fmt.Printf("OBL\t%s\t%s\t%s\n", o.Status, o.Rule, o.Construct)
		}
	}
	if mode == "keys" {
		for _, o := range rep.Obls {
			if o.Status != report.Holds && !o.Known {
				fmt.Printf("KEY\t%s\t%s\t%s\n", o.Status, o.Rule, o.Construct)
			}
		}
	}
	return code
}
