package main

import (
	"encoding/json"
	"fmt"
	"os"
	"os/exec"
	"path/filepath"
	"sort"
	"strings"
	"sync"

	"verif/checker/ir"
	"verif/checker/report"
	"verif/checker/rules"
)

// thorough adds to an evaluated quick report:
//  1. a second evaluation of every rule on the class-hierarchy (CHA) call graph — a superset of the VTA graph the
//     verdict is computed on — and records every obligation whose status differs (cross-check, not a verdict);
//  2. a second load of the program for another platform (GOOS=windows: os/exec, net and syscall differ) and an
//     evaluation there; a violation that exists only there is added to the verdict;
//  3. a self-test of the rules against /repo's CURRENT tree: every kept seeded change (seeded/*) expected to be
//     caught by this property's check is applied to a scratch copy and must produce a new violation; every
//     behaviour-preserving variant (variants/*) must produce none. The outcome is recorded in the evidence and
//     printed (SELFTEST-MISS / SELFTEST-ALARM); it does not change the exit status, which is about /repo only.
func thorough(prop string, rule rules.Rule, p *ir.Program, rep *report.Report, repo, verif string, seed int64) {
	rep.Normalize()
	base := map[string]string{}
	for _, o := range rep.Obls {
		base[o.Key()] = o.Status
	}
	// 1. CHA cross-check
	if p.CHA != nil {
		sh := report.New(prop, "thorough", seed)
		func() {
			defer func() {
				if r := recover(); r != nil {
					sh.Break("panic on CHA graph: %v", r)
				}
			}()
			rule(&rules.Ctx{P: p, R: sh, G: p.CHA, Tier: "thorough"})
		}()
		var delta []string
		seen := map[string]bool{}
		sh.Normalize()
		for _, o := range sh.Obls {
			seen[o.Key()] = true
			if b, ok := base[o.Key()]; !ok {
				delta = append(delta, "only-on-CHA "+o.Status+" "+o.Key())
			} else if b != o.Status {
				delta = append(delta, b+"->"+o.Status+" "+o.Key())
			}
		}
		for k := range base {
			if !seen[k] {
				delta = append(delta, "only-on-VTA "+k)
			}
		}
		sort.Strings(delta)
		if len(delta) > 12 {
			delta = append(delta[:12], fmt.Sprintf("... %d more", len(delta)-12))
		}
		rep.Extra["cha_cross_check"] = map[string]interface{}{
			"graph_edges_vta": edges(p, false), "graph_edges_cha": edges(p, true),
			"obligations_on_cha": len(sh.Obls), "differences": delta, "check_broken_on_cha": sh.Broken,
		}
	}
	// 2. other platform
	if os.Getenv("VERIF_NO_PLATFORM") == "" {
		p2, err := ir.Load(ir.Options{Dir: repo, GOOS: "windows"})
		if err != nil {
			rep.Extra["platform_windows"] = "not analysed: " + err.Error()
		} else {
			sh := report.New(prop, "thorough", seed)
			func() {
				defer func() {
					if r := recover(); r != nil {
						sh.Break("panic: %v", r)
					}
				}()
				rule(&rules.Ctx{P: p2, R: sh, G: p2.VTA, Tier: "thorough"})
			}()
			added := 0
			sh.Normalize()
			for _, o := range sh.Obls {
				if o.Status == report.Violated && base[o.Key()] != report.Violated {
					o.Construct += " [GOOS=windows]"
					rep.Add(o)
					added++
				}
			}
			rep.Extra["platform_windows"] = map[string]interface{}{"obligations": len(sh.Obls), "violations_only_there": added, "library_functions": len(p2.LibFns), "check_broken": sh.Broken}
		}
	}
	// 3. self-test on mutants and behaviour-preserving variants of the current tree
	if os.Getenv("VERIF_NO_SELFTEST") == "" {
		rep.Extra["selftest"] = selftest(prop, repo, verif, base)
	}
}

func edges(p *ir.Program, cha bool) int {
	g := p.VTA
	if cha {
		g = p.CHA
	}
	n := 0
	for _, nd := range g.Nodes {
		n += len(nd.Out)
	}
	return n
}

type stCase struct {
	Name     string   `json:"name"`
	Kind     string   `json:"kind"` // "seed" (must be caught) or "variant" (must stay silent)
	Outcome  string   `json:"outcome"`
	NewRules []string `json:"new_violations,omitempty"`
}

func selftest(prop, repo, verif string, base map[string]string) map[string]interface{} {
	var expect map[string]map[string][]string
	if b, err := os.ReadFile(filepath.Join(verif, "seeded", "expect.json")); err == nil {
		json.Unmarshal(b, &expect)
	}
	type job struct{ name, kind, patch string }
	var jobs []job
	var names []string
	for s := range expect {
		names = append(names, s)
	}
	sort.Strings(names)
	for _, s := range names {
		if _, ok := expect[s][prop]; ok {
			jobs = append(jobs, job{s, "seed", filepath.Join(verif, "seeded", s, "patch.diff")})
		}
	}
	vs, _ := filepath.Glob(filepath.Join(verif, "variants", "*", "patch.diff"))
	sort.Strings(vs)
	for _, v := range vs {
		jobs = append(jobs, job{filepath.Base(filepath.Dir(v)), "variant", v})
	}
	results := make([]stCase, len(jobs))
	sem := make(chan struct{}, 6)
	var wg sync.WaitGroup
	self, _ := os.Executable()
	for i, j := range jobs {
		wg.Add(1)
		go func(i int, j job) {
			defer wg.Done()
			sem <- struct{}{}
			defer func() { <-sem }()
			results[i] = runCase(self, prop, repo, verif, j.name, j.kind, j.patch, base)
		}(i, j)
	}
	wg.Wait()
	miss, alarm, skipped, ok := 0, 0, 0, 0
	for _, r := range results {
		switch {
		case strings.HasPrefix(r.Outcome, "skipped"):
			skipped++
		case r.Kind == "seed" && r.Outcome != "caught":
			miss++
			fmt.Printf("SELFTEST-MISS property=%s seed=%s: %s\n", prop, r.Name, r.Outcome)
		case r.Kind == "variant" && r.Outcome != "silent":
			alarm++
			fmt.Printf("SELFTEST-ALARM property=%s variant=%s: %s %v\n", prop, r.Name, r.Outcome, r.NewRules)
		default:
			ok++
		}
	}
	fmt.Printf("selftest %s: %d cases on scratch copies of the current tree: %d as expected, %d missed seeds, %d alarms on behaviour-preserving variants, %d skipped (patch does not apply)\n", prop, len(results), ok, miss, alarm, skipped)
	return map[string]interface{}{"cases": results, "as_expected": ok, "missed": miss, "false_alarms": alarm, "skipped": skipped,
		"method": "each patch is applied to a scratch copy of /repo's working tree (removed afterwards) and the same analysis is run on it; only violations absent from the analysis of /repo itself are counted"}
}

func runCase(self, prop, repo, verif, name, kind, patch string, base map[string]string) stCase {
	res := stCase{Name: name, Kind: kind}
	tmp, err := os.MkdirTemp("", "mcpcheck-st-")
	if err != nil {
		res.Outcome = "skipped: " + err.Error()
		return res
	}
	defer os.RemoveAll(tmp)
	tree := filepath.Join(tmp, "tree")
	vdir := filepath.Join(tmp, "verif")
	os.MkdirAll(vdir, 0o755)
	if out, err := exec.Command("rsync", "-a", "--exclude=.git", repo+"/", tree+"/").CombinedOutput(); err != nil {
		res.Outcome = "skipped: copy failed: " + string(out)
		return res
	}
	ap := exec.Command("git", "apply", "--whitespace=nowarn", patch)
	ap.Dir = tree
	if out, err := ap.CombinedOutput(); err != nil {
		res.Outcome = "skipped: patch does not apply to the current tree: " + firstLine(string(out))
		return res
	}
	if b, err := os.ReadFile(filepath.Join(verif, "known_findings.json")); err == nil {
		os.WriteFile(filepath.Join(vdir, "known_findings.json"), b, 0o644)
	}
	cmd := exec.Command(self, "-prop", prop, "-tier", "keys", "-repo", tree, "-verif", vdir)
	out, _ := cmd.CombinedOutput()
	newV := map[string]bool{}
	broken := ""
	for _, ln := range strings.Split(string(out), "\n") {
		if strings.HasPrefix(ln, "KEY\t") {
			f := strings.SplitN(ln, "\t", 4)
			if len(f) == 4 && f[1] == report.Violated && base[f[2]+"/"+f[3]] != report.Violated {
				newV[f[2]] = true
			}
		}
		if strings.HasPrefix(ln, "CHECK-BROKEN") && broken == "" {
			broken = ln
		}
	}
	for r := range newV {
		res.NewRules = append(res.NewRules, r)
	}
	sort.Strings(res.NewRules)
	switch {
	case len(newV) > 0 && kind == "seed":
		res.Outcome = "caught"
	case len(newV) > 0:
		res.Outcome = "alarm"
	case broken != "":
		res.Outcome = "check broken: " + broken
	case kind == "seed":
		res.Outcome = "missed"
	default:
		res.Outcome = "silent"
	}
	return res
}

func firstLine(s string) string {
	if i := strings.IndexByte(s, '\n'); i >= 0 {
		return s[:i]
	}
	return s
}
