// Package ir loads the library under analysis (type-checked syntax, SSA, call graphs) and
// offers the small set of semantic lookups the rules are written against.
package ir

import (
	"fmt"
	"go/ast"
	"go/token"
	"go/types"
	"os"
	"sort"
	"strings"

	"golang.org/x/tools/go/callgraph"
	"golang.org/x/tools/go/callgraph/cha"
	"golang.org/x/tools/go/callgraph/vta"
	"golang.org/x/tools/go/packages"
	"golang.org/x/tools/go/ssa"
	"golang.org/x/tools/go/ssa/ssautil"
)

// RootPath is the import path of the library's public package.
const RootPath = "trpc.group/trpc-go/trpc-mcp-go"

// Program is everything a rule may look at.
type Program struct {
	Dir     string
	Fset    *token.FileSet
	Pkgs    []*packages.Package // the library packages (root + internal/...), sorted by path
	Root    *packages.Package
	ByPath  map[string]*packages.Package
	SSA     *ssa.Program
	SSAPkg  map[string]*ssa.Package
	VTA     *callgraph.Graph
	CHA     *callgraph.Graph // only when requested
	LibFns  []*ssa.Function  // every function (incl. closures, methods, instantiations) whose source is in a library package
	libSet  map[*ssa.Function]bool
	GOOS    string
	NumAll  int // functions in the whole program
	astFunc map[*ast.FuncDecl]*ssa.Function
}

// Options control loading.
type Options struct {
	Dir     string
	Overlay map[string][]byte
	WithCHA bool
	GOOS    string
}

// Load type-checks the library, builds SSA for the whole program and the call graph(s).
// Any load or type error is returned: a partially analysed program is never used.
func Load(opt Options) (*Program, error) {
	env := append(os.Environ(), "GOFLAGS=-mod=mod", "GOPROXY=off", "GOSUMDB=off", "GOTOOLCHAIN=local", "GOWORK=off")
	if opt.GOOS != "" {
		env = append(env, "GOOS="+opt.GOOS, "CGO_ENABLED=0")
	}
	cfg := &packages.Config{
		Mode:    packages.LoadAllSyntax,
		Dir:     opt.Dir,
		Env:     env,
		Overlay: opt.Overlay,
	}
	pkgs, err := packages.Load(cfg, ".", "./internal/...")
	if err != nil {
		return nil, fmt.Errorf("packages.Load: %w", err)
	}
	if len(pkgs) == 0 {
		return nil, fmt.Errorf("no packages loaded from %s", opt.Dir)
	}
	var errs []string
	packages.Visit(pkgs, nil, func(p *packages.Package) {
		for _, e := range p.Errors {
			errs = append(errs, e.Error())
		}
	})
	if len(errs) > 0 {
		sort.Strings(errs)
		if len(errs) > 8 {
			errs = errs[:8]
		}
		return nil, fmt.Errorf("type/load errors: %s", strings.Join(errs, "; "))
	}
	p := &Program{Dir: opt.Dir, ByPath: map[string]*packages.Package{}, SSAPkg: map[string]*ssa.Package{}, GOOS: opt.GOOS,
		libSet: map[*ssa.Function]bool{}, astFunc: map[*ast.FuncDecl]*ssa.Function{}}
	sort.Slice(pkgs, func(i, j int) bool { return pkgs[i].PkgPath < pkgs[j].PkgPath })
	for _, pk := range pkgs {
		if !strings.HasPrefix(pk.PkgPath, RootPath) {
			continue
		}
		p.Pkgs = append(p.Pkgs, pk)
		p.ByPath[pk.PkgPath] = pk
		if pk.PkgPath == RootPath {
			p.Root = pk
		}
		p.Fset = pk.Fset
	}
	if p.Root == nil {
		return nil, fmt.Errorf("root package %s not among loaded packages", RootPath)
	}
	prog, _ := ssautil.AllPackages(pkgs, ssa.InstantiateGenerics)
	prog.Build()
	p.SSA = prog
	for _, pk := range p.Pkgs {
		sp := prog.Package(pk.Types)
		if sp == nil {
			return nil, fmt.Errorf("no SSA package for %s", pk.PkgPath)
		}
		p.SSAPkg[pk.PkgPath] = sp
	}
	all := ssautil.AllFunctions(prog)
	p.NumAll = len(all)
	for fn := range all {
		if p.inLib(fn) {
			p.LibFns = append(p.LibFns, fn)
			p.libSet[fn] = true
			LibraryFuncs[fn] = true
			if fd, ok := fn.Syntax().(*ast.FuncDecl); ok && fn.Origin() == nil {
				p.astFunc[fd] = fn
			}
		}
	}
	sort.Slice(p.LibFns, func(i, j int) bool {
		a, b := p.LibFns[i], p.LibFns[j]
		if a.String() != b.String() {
			return a.String() < b.String()
		}
		return a.Pos() < b.Pos()
	})
	chaG := cha.CallGraph(prog)
	p.VTA = vta.CallGraph(all, chaG)
	if opt.WithCHA {
		p.CHA = chaG
	}
	return p, nil
}

func (p *Program) inLib(fn *ssa.Function) bool {
	if fn.Blocks == nil || !fn.Pos().IsValid() {
		return false
	}
	// wrappers, thunks and bound-method closures are synthetic; instantiations of generic library functions are
	// synthetic too but carry real code (the generic body with the type arguments substituted) and are analysed
	if fn.Synthetic != "" && fn.Origin() == nil {
		return false
	}
	file := p.SSA.Fset.Position(fn.Pos()).Filename
	return strings.HasPrefix(file, p.Dir+"/") && !strings.HasSuffix(file, "_test.go")
}

// IsLib reports whether fn is a source function of the library.
func (p *Program) IsLib(fn *ssa.Function) bool { return p.libSet[fn] }

// Pos renders a position relative to the repository root.
func (p *Program) Pos(pos token.Pos) string {
	if !pos.IsValid() {
		return "-"
	}
	ps := p.SSA.Fset.Position(pos)
	f := strings.TrimPrefix(ps.Filename, p.Dir+"/")
	return fmt.Sprintf("%s:%d", f, ps.Line)
}

// File is the repository-relative file name of pos.
func (p *Program) File(pos token.Pos) string {
	if !pos.IsValid() {
		return ""
	}
	return strings.TrimPrefix(p.SSA.Fset.Position(pos).Filename, p.Dir+"/")
}

// FuncName is a stable, human-readable name: "(*T).m", "f", "f$1" without the module prefix.
func FuncName(fn *ssa.Function) string {
	s := fn.String()
	s = strings.ReplaceAll(s, RootPath+"/internal/", "")
	s = strings.ReplaceAll(s, RootPath+".", "")
	s = strings.ReplaceAll(s, RootPath, "mcp")
	return s
}

// Outer returns the outermost enclosing declared function of a (possibly nested) closure.
func Outer(fn *ssa.Function) *ssa.Function {
	for fn.Parent() != nil {
		fn = fn.Parent()
	}
	return fn
}

// Named looks a package-level named type up.
func (p *Program) Named(pkgPath, name string) *types.Named {
	pk := p.ByPath[pkgPath]
	if pk == nil {
		return nil
	}
	o := pk.Types.Scope().Lookup(name)
	if o == nil {
		return nil
	}
	n, _ := o.Type().(*types.Named)
	return n
}

// RootNamed looks a named type of the public package up.
func (p *Program) RootNamed(name string) *types.Named { return p.Named(RootPath, name) }

// Method returns the SSA function of method name on named type T (pointer or value receiver).
func (p *Program) Method(T *types.Named, name string) *ssa.Function {
	if T == nil {
		return nil
	}
	for _, recv := range []types.Type{types.NewPointer(T), T} {
		sel := p.SSA.MethodSets.MethodSet(recv).Lookup(T.Obj().Pkg(), name)
		if sel == nil {
			continue
		}
		if fn := p.SSA.MethodValue(sel); fn != nil {
			// unwrap synthetic promotions/wrappers to the declared method when possible
			if fn.Synthetic != "" {
				if m, ok := sel.Obj().(*types.Func); ok {
					if d := p.SSA.FuncValue(m); d != nil {
						return d
					}
				}
			}
			return fn
		}
	}
	return nil
}

// Func returns the SSA function of a package-level function.
func (p *Program) Func(pkgPath, name string) *ssa.Function {
	sp := p.SSAPkg[pkgPath]
	if sp == nil {
		return nil
	}
	return sp.Func(name)
}

// FuncOfDecl maps a declaration to its SSA function.
func (p *Program) FuncOfDecl(fd *ast.FuncDecl) *ssa.Function { return p.astFunc[fd] }

// ConstString returns the value of a package-level string constant of the public package (or internal pkg).
func (p *Program) ConstString(pkgPath, name string) (string, bool) {
	pk := p.ByPath[pkgPath]
	if pk == nil {
		return "", false
	}
	c, ok := pk.Types.Scope().Lookup(name).(*types.Const)
	if !ok {
		return "", false
	}
	v := c.Val().ExactString()
	if len(v) >= 2 && v[0] == '"' {
		return v[1 : len(v)-1], true
	}
	return v, true
}

// Implementers returns the named (non-interface) types of the library whose value or pointer
// method set implements iface, sorted by name.
func (p *Program) Implementers(iface *types.Interface) []*types.Named {
	var out []*types.Named
	for _, pk := range p.Pkgs {
		sc := pk.Types.Scope()
		for _, n := range sc.Names() {
			tn, ok := sc.Lookup(n).(*types.TypeName)
			if !ok || tn.IsAlias() {
				continue
			}
			nt, ok := tn.Type().(*types.Named)
			if !ok || types.IsInterface(nt) {
				continue
			}
			if nt.TypeParams().Len() > 0 {
				continue
			}
			if types.Implements(nt, iface) || types.Implements(types.NewPointer(nt), iface) {
				out = append(out, nt)
			}
		}
	}
	sort.Slice(out, func(i, j int) bool { return out[i].Obj().Name() < out[j].Obj().Name() })
	return out
}

// Graph selects the call graph: the conservative CHA graph when present and asked for, else VTA.
func (p *Program) Graph(conservative bool) *callgraph.Graph {
	if conservative && p.CHA != nil {
		return p.CHA
	}
	return p.VTA
}

// PkgPathOf returns the import path of the package a function (or the function a closure is declared in) belongs to;
// "" for synthetic functions without a package.
func PkgPathOf(fn *ssa.Function) string {
	o := Outer(fn)
	if o.Pkg != nil {
		return o.Pkg.Pkg.Path()
	}
	if org := o.Origin(); org != nil && org.Pkg != nil {
		return org.Pkg.Pkg.Path()
	}
	return ""
}
