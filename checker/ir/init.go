package ir

import (
	"go/types"
	"strings"
	"unicode"

	"golang.org/x/tools/go/callgraph"
	"golang.org/x/tools/go/ssa"
)

// IsConstructor: a package-level function (no receiver) whose name starts with New/new followed by
// an upper-case letter, or an option factory (With*/with*) that only builds a closure.
func IsConstructor(fn *ssa.Function) bool {
	if fn.Parent() != nil || fn.Signature.Recv() != nil {
		return false
	}
	n := fn.Name()
	for _, p := range []string{"New", "new"} {
		if strings.HasPrefix(n, p) && len(n) > len(p) && unicode.IsUpper(rune(n[len(p)])) {
			return true
		}
	}
	return false
}

// InitOnly computes the set of library functions that only ever run while an object is being
// constructed: they are unreachable from every non-constructor entry point when constructors are
// not traversed. Entry points are library functions without library callers and every function
// started by a `go` statement (it outlives the constructor). Writes performed by InitOnly
// functions happen before the object is published.
func (p *Program) InitOnly(g *callgraph.Graph) map[*ssa.Function]bool {
	roots := map[*ssa.Function]bool{}
	for _, fn := range p.LibFns {
		n := g.Nodes[fn]
		hasLibCaller := false
		if n != nil {
			for _, e := range n.In {
				if p.IsLib(e.Caller.Func) {
					hasLibCaller = true
				}
				if _, isGo := e.Site.(*ssa.Go); isGo {
					roots[fn] = true
				}
			}
		}
		if !hasLibCaller && fn.Parent() == nil {
			// unexported and never called (not even from outside the library): dead code, not an entry point
			if n == nil || len(n.In) == 0 {
				if o := fn.Object(); o != nil && !o.Exported() && fn.Name() != "init" {
					continue
				}
			}
			roots[fn] = true
		}
	}
	reach := map[*ssa.Function]bool{}
	var stack []*ssa.Function
	for r := range roots {
		if IsConstructor(r) {
			continue
		}
		// option factories (WithX) are roots but only build closures: harmless to traverse
		reach[r] = true
		stack = append(stack, r)
	}
	for len(stack) > 0 {
		f := stack[len(stack)-1]
		stack = stack[:len(stack)-1]
		n := g.Nodes[f]
		if n == nil {
			continue
		}
		for _, e := range n.Out {
			c := e.Callee.Func
			if reach[c] {
				continue
			}
			if p.IsLib(c) && IsConstructor(c) {
				continue
			}
			reach[c] = true
			stack = append(stack, c)
		}
	}
	out := map[*ssa.Function]bool{}
	for _, fn := range p.LibFns {
		if !reach[fn] {
			out[fn] = true
		}
	}
	return out
}

// Exported reports whether fn is part of the public API (exported function, or exported method of
// an exported type) of the public package.
func (p *Program) Exported(fn *ssa.Function) bool {
	if fn.Parent() != nil || fn.Pkg == nil || fn.Pkg.Pkg.Path() != RootPath {
		return false
	}
	if !fn.Object().Exported() {
		return false
	}
	if recv := fn.Signature.Recv(); recv != nil {
		t := recv.Type()
		if pt, ok := t.(*types.Pointer); ok {
			t = pt.Elem()
		}
		if n, ok := t.(*types.Named); ok {
			return n.Obj().Exported()
		}
		return false
	}
	return true
}
