package ir

import (
	"fmt"
	"go/constant"
	"go/token"
	"go/types"
	"strings"

	"golang.org/x/tools/go/callgraph"
	"golang.org/x/tools/go/ssa"
)

// CallName is a canonical name for the thing a call instruction invokes:
//
//	static function        "net/http.Error", "(*sync.RWMutex).RLock", "(*mcp.toolManager).getTools"
//	interface method       "(net/http.ResponseWriter).WriteHeader"
//	builtin                "builtin.close"
//	dynamic function value "dynamic"
//
// Library paths are shortened: the module prefix is replaced by "mcp".
func CallName(c ssa.CallInstruction) string {
	cc := c.Common()
	if cc.IsInvoke() {
		recv := cc.Value.Type()
		return "(" + shortType(recv) + ")." + cc.Method.Name()
	}
	switch v := cc.Value.(type) {
	case *ssa.Builtin:
		return "builtin." + v.Name()
	case *ssa.Function:
		return FuncCanon(v)
	case *ssa.MakeClosure:
		if f, ok := v.Fn.(*ssa.Function); ok {
			return FuncCanon(f)
		}
	}
	return "dynamic"
}

// FuncCanon renders a function the way CallName does.
func FuncCanon(f *ssa.Function) string {
	if f.Origin() != nil {
		f = f.Origin()
	}
	s := f.String()
	return shorten(s)
}

func shorten(s string) string {
	s = strings.ReplaceAll(s, RootPath+"/internal/", "mcp/internal/")
	s = strings.ReplaceAll(s, RootPath, "mcp")
	return s
}

func shortType(t types.Type) string {
	return shorten(types.TypeString(t, nil))
}

// TypeStr renders a type with shortened library paths.
func TypeStr(t types.Type) string { return shortType(t) }

// StaticCallee returns the statically known callee of c (function, or closure literal), or nil.
func StaticCallee(c ssa.CallInstruction) *ssa.Function {
	cc := c.Common()
	if cc.IsInvoke() {
		return nil
	}
	switch v := cc.Value.(type) {
	case *ssa.Function:
		return v
	case *ssa.MakeClosure:
		if f, ok := v.Fn.(*ssa.Function); ok {
			return f
		}
	}
	return nil
}

// Callees resolves the possible callees of a call site: the static callee if any, else the
// call graph's out-edges for that site.
func Callees(g *callgraph.Graph, site ssa.CallInstruction) []*ssa.Function {
	if f := StaticCallee(site); f != nil {
		return []*ssa.Function{f}
	}
	n := g.Nodes[site.Parent()]
	if n == nil {
		return nil
	}
	var out []*ssa.Function
	seen := map[*ssa.Function]bool{}
	for _, e := range n.Out {
		if e.Site == site && !seen[e.Callee.Func] {
			seen[e.Callee.Func] = true
			out = append(out, e.Callee.Func)
		}
	}
	return out
}

// Callers lists the call-graph in-edges of fn.
func Callers(g *callgraph.Graph, fn *ssa.Function) []*callgraph.Edge {
	n := g.Nodes[fn]
	if n == nil {
		return nil
	}
	return n.In
}

// EachInstr visits every instruction of fn in block order.
func EachInstr(fn *ssa.Function, f func(b *ssa.BasicBlock, i int, in ssa.Instruction)) {
	for _, b := range fn.Blocks {
		for i, in := range b.Instrs {
			f(b, i, in)
		}
	}
}

// EachCall visits every call/go/defer instruction of fn.
func EachCall(fn *ssa.Function, f func(c ssa.CallInstruction)) {
	EachInstr(fn, func(_ *ssa.BasicBlock, _ int, in ssa.Instruction) {
		if c, ok := in.(ssa.CallInstruction); ok {
			f(c)
		}
	})
}

// CallsNamed returns the call instructions of fn whose CallName is one of names.
func CallsNamed(fn *ssa.Function, names ...string) []ssa.CallInstruction {
	var out []ssa.CallInstruction
	EachCall(fn, func(c ssa.CallInstruction) {
		n := CallName(c)
		for _, w := range names {
			if n == w {
				out = append(out, c)
			}
		}
	})
	return out
}

// WithClosures returns fn and all closures nested in it (transitively).
func WithClosures(fn *ssa.Function) []*ssa.Function {
	out := []*ssa.Function{fn}
	for _, a := range fn.AnonFuncs {
		out = append(out, WithClosures(a)...)
	}
	return out
}

// ConstInt returns the integer value of v if it is an integer constant.
func ConstInt(v ssa.Value) (int64, bool) {
	c, ok := v.(*ssa.Const)
	if !ok || c.Value == nil {
		return 0, false
	}
	if c.Value.Kind() != constant.Int {
		return 0, false
	}
	i, exact := constant.Int64Val(c.Value)
	return i, exact
}

// ConstStr returns the string value of v if it is a string constant.
func ConstStr(v ssa.Value) (string, bool) {
	c, ok := v.(*ssa.Const)
	if !ok || c.Value == nil || c.Value.Kind() != constant.String {
		return "", false
	}
	return constant.StringVal(c.Value), true
}

// IsNilConst reports whether v is the nil constant.
func IsNilConst(v ssa.Value) bool {
	c, ok := v.(*ssa.Const)
	return ok && c.Value == nil
}

// Unwrap strips conversions, interface boxing and type changes.
func Unwrap(v ssa.Value) ssa.Value {
	for {
		switch x := v.(type) {
		case *ssa.MakeInterface:
			v = x.X
		case *ssa.ChangeType:
			v = x.X
		case *ssa.ChangeInterface:
			v = x.X
		case *ssa.Convert:
			v = x.X
		default:
			return v
		}
	}
}

// FieldRef describes a struct field access.
type FieldRef struct {
	Struct *types.Named // nil for anonymous struct types
	Name   string
	Type   types.Type
}

// Key is "Type.field".
func (f FieldRef) Key() string {
	if f.Struct == nil {
		return "<anon>." + f.Name
	}
	return TypeKey(f.Struct) + "." + f.Name
}

// FieldOf returns the field accessed by a FieldAddr or Field instruction.
func FieldOf(v ssa.Value) (FieldRef, ssa.Value, bool) {
	switch x := v.(type) {
	case *ssa.FieldAddr:
		pt, ok := x.X.Type().Underlying().(*types.Pointer)
		if !ok {
			return FieldRef{}, nil, false
		}
		st, ok := pt.Elem().Underlying().(*types.Struct)
		if !ok {
			return FieldRef{}, nil, false
		}
		n, _ := pt.Elem().(*types.Named)
		f := st.Field(x.Field)
		return FieldRef{Struct: n, Name: f.Name(), Type: f.Type()}, x.X, true
	case *ssa.Field:
		st, ok := x.X.Type().Underlying().(*types.Struct)
		if !ok {
			return FieldRef{}, nil, false
		}
		n, _ := x.X.Type().(*types.Named)
		f := st.Field(x.Field)
		return FieldRef{Struct: n, Name: f.Name(), Type: f.Type()}, x.X, true
	}
	return FieldRef{}, nil, false
}

// LoadedField: if v is `*(&x.f)` (a load of a field) or `x.f` (value field), returns the field.
// A call of a library accessor that does nothing but return one member of its receiver (possibly under a lock) counts
// as a load of that member of the receiver argument: introducing or removing an accessor does not change what a rule
// sees.
func LoadedField(v ssa.Value) (FieldRef, ssa.Value, bool) {
	if u, ok := v.(*ssa.UnOp); ok && u.Op == token.MUL {
		return FieldOf(u.X)
	}
	if f, ok := v.(*ssa.Field); ok {
		return FieldOf(f)
	}
	if call, ok := v.(*ssa.Call); ok {
		if f, ok := accessorField(call); ok {
			return f, call.Call.Args[0], true
		}
	}
	return FieldRef{}, nil, false
}

// LibraryFuncs is filled by Load: the functions whose source is in the library.
var LibraryFuncs = map[*ssa.Function]bool{}

var accessorCache = map[*ssa.Function]*FieldRef{}

func accessorField(call *ssa.Call) (FieldRef, bool) {
	sc := call.Call.StaticCallee()
	if sc == nil || !LibraryFuncs[sc] || sc.Signature.Recv() == nil || len(sc.Params) != 1 || len(call.Call.Args) != 1 || sc.Signature.Results().Len() != 1 {
		return FieldRef{}, false
	}
	if r, ok := accessorCache[sc]; ok {
		if r == nil {
			return FieldRef{}, false
		}
		return *r, true
	}
	accessorCache[sc] = nil
	var found *FieldRef
	nRet := 0
	simple := true
	chained := map[*ssa.Call]bool{}
	var calls []*ssa.Call
	for _, b := range sc.Blocks {
		if b == sc.Recover {
			continue
		}
		for _, in := range b.Instrs {
			switch x := in.(type) {
			case *ssa.Return:
				nRet++
				res := Results(x)
				if len(res) != 1 {
					simple = false
					continue
				}
				if u, ok := res[0].(*ssa.UnOp); ok && u.Op == token.MUL {
					if f, base, ok := FieldOf(u.X); ok && base == ssa.Value(sc.Params[0]) {
						ff := f
						found = &ff
					}
				}
				// an accessor of an accessor: `return t.state.get()` where state is a member of the receiver
				if ic, ok := res[0].(*ssa.Call); ok && len(ic.Call.Args) == 1 {
					recv := ic.Call.Args[0]
					if u, ok := recv.(*ssa.UnOp); ok && u.Op == token.MUL {
						recv = u.X
					}
					if _, base, ok := FieldOf(recv); ok && base == ssa.Value(sc.Params[0]) {
						if inner, ok := accessorField(ic); ok {
							ff := inner
							found = &ff
							chained[ic] = true
						}
					}
				}
			case *ssa.Store:
				// storing into the result cell is fine (defer-spilled return); any other store makes it more than an accessor
				if _, isAlloc := x.Addr.(*ssa.Alloc); !isAlloc {
					simple = false
				}
			case *ssa.Go, *ssa.Send, *ssa.MapUpdate, *ssa.Select:
				simple = false
			case *ssa.Call:
				n := CallName(x)
				if !strings.HasSuffix(n, "Lock") && !strings.HasSuffix(n, "RLock") && !strings.HasSuffix(n, "Unlock") {
					calls = append(calls, x)
				}
			}
		}
	}
	for _, x := range calls {
		if !chained[x] {
			simple = false
		}
	}
	if nRet != 1 || !simple || found == nil {
		return FieldRef{}, false
	}
	accessorCache[sc] = found
	return *found, true
}

// Path computes a symbolic access path for v inside its function: parameters and free variables
// are roots, field selections extend the path, loads are transparent. "" means unknown.
func Path(v ssa.Value) string {
	return pathDepth(v, 0)
}

func pathDepth(v ssa.Value, d int) string {
	if d > 12 {
		return ""
	}
	switch x := v.(type) {
	case *ssa.Parameter:
		return x.Name()
	case *ssa.FreeVar:
		return x.Name()
	case *ssa.Global:
		return "global:" + x.Name()
	case *ssa.FieldAddr, *ssa.Field:
		f, base, ok := FieldOf(x)
		if !ok {
			return ""
		}
		b := pathDepth(base, d+1)
		if b == "" {
			return ""
		}
		return b + "." + f.Name
	case *ssa.UnOp:
		if x.Op == token.MUL {
			return pathDepth(x.X, d+1)
		}
	case *ssa.Alloc:
		// a local variable cell: transparent if it has exactly one store
		var stored ssa.Value
		n := 0
		for _, r := range *x.Referrers() {
			if s, ok := r.(*ssa.Store); ok && s.Addr == x {
				stored = s.Val
				n++
			}
		}
		if n == 1 {
			if p := pathDepth(stored, d+1); p != "" {
				return p
			}
		}
		return fmt.Sprintf("local:%s", x.Comment)
	case *ssa.MakeInterface, *ssa.ChangeType, *ssa.ChangeInterface:
		return pathDepth(Unwrap(v), d+1)
	case *ssa.TypeAssert:
		return pathDepth(x.X, d+1)
	case *ssa.Extract:
		if ta, ok := x.Tuple.(*ssa.TypeAssert); ok && x.Index == 0 {
			return pathDepth(ta.X, d+1)
		}
	}
	return ""
}

// BaseAlloc reports whether the access path of v is rooted at an object allocated in this
// function (composite literal / new), i.e. the access is to a not-yet-published object.
func BaseAlloc(v ssa.Value) bool {
	for d := 0; d < 12; d++ {
		switch x := v.(type) {
		case *ssa.Alloc:
			// a cell that merely holds a pointer: look through its single store
			if _, holdsPtr := x.Type().(*types.Pointer).Elem().Underlying().(*types.Pointer); holdsPtr {
				var stored ssa.Value
				n := 0
				for _, r := range *x.Referrers() {
					if s, ok := r.(*ssa.Store); ok && s.Addr == x {
						stored = s.Val
						n++
					}
				}
				if n == 1 {
					v = stored
					continue
				}
				return false
			}
			return true
		case *ssa.FieldAddr:
			v = x.X
			continue
		case *ssa.Field:
			v = x.X
			continue
		case *ssa.UnOp:
			if x.Op == token.MUL {
				v = x.X
				continue
			}
		case *ssa.IndexAddr:
			v = x.X
			continue
		}
		return false
	}
	return false
}

// IsSyncType reports whether t is (a pointer to) one of sync's or sync/atomic's types.
func IsSyncType(t types.Type) bool {
	if p, ok := t.(*types.Pointer); ok {
		t = p.Elem()
	}
	n, ok := t.(*types.Named)
	if !ok || n.Obj().Pkg() == nil {
		return false
	}
	pp := n.Obj().Pkg().Path()
	return pp == "sync" || pp == "sync/atomic"
}

// IsMutexType reports whether t is sync.Mutex / sync.RWMutex (or pointer to one).
func IsMutexType(t types.Type) bool {
	if p, ok := t.(*types.Pointer); ok {
		t = p.Elem()
	}
	n, ok := t.(*types.Named)
	if !ok || n.Obj().Pkg() == nil || n.Obj().Pkg().Path() != "sync" {
		return false
	}
	return n.Obj().Name() == "Mutex" || n.Obj().Name() == "RWMutex"
}

// FullField names the field a FieldAddr selects, including enclosing by-value anonymous struct
// fields ("streamableHTTPClientTransport.getSSEConn.active"), and returns the owning named struct
// type, the field's type and the base object value.
func FullField(fa *ssa.FieldAddr) (key, owner string, typ types.Type, base ssa.Value) {
	f, b, ok := FieldOf(fa)
	if !ok {
		return "", "", nil, nil
	}
	name := f.Name
	typ = f.Type
	cur := b
	st := f.Struct
	for st == nil {
		pfa, ok := cur.(*ssa.FieldAddr)
		if !ok {
			return "", "", nil, nil
		}
		pf, pb, ok := FieldOf(pfa)
		if !ok {
			return "", "", nil, nil
		}
		name = pf.Name + "." + name
		st = pf.Struct
		cur = pb
	}
	return TypeKey(st) + "." + name, TypeKey(st), typ, cur
}

// TypeKey names a named type: "T" in the public package, "pkg.T" in internal packages,
// "import/path.T" elsewhere.
func TypeKey(n *types.Named) string {
	o := n.Obj()
	if o.Pkg() == nil {
		return o.Name()
	}
	p := o.Pkg().Path()
	switch {
	case p == RootPath:
		return o.Name()
	case strings.HasPrefix(p, RootPath+"/internal/"):
		return strings.TrimPrefix(p, RootPath+"/internal/") + "." + o.Name()
	}
	return p + "." + o.Name()
}

// InLibrary reports whether named type n is declared in the library.
func InLibrary(n *types.Named) bool {
	return n != nil && n.Obj().Pkg() != nil && strings.HasPrefix(n.Obj().Pkg().Path(), RootPath)
}

// FullFieldOwner is FullField returning the owning named type itself.
func FullFieldOwner(fa *ssa.FieldAddr) *types.Named {
	f, b, ok := FieldOf(fa)
	if !ok {
		return nil
	}
	st := f.Struct
	cur := b
	for st == nil {
		pfa, ok := cur.(*ssa.FieldAddr)
		if !ok {
			return nil
		}
		pf, pb, ok := FieldOf(pfa)
		if !ok {
			return nil
		}
		st = pf.Struct
		cur = pb
	}
	return st
}

// Results returns the values a Return instruction returns, looking through the result spilling go/ssa applies to
// functions that contain a defer (the return statement stores into the result variables, runs the deferred calls
// and returns the re-loaded variables): a result that is a load of a local variable stored earlier in the same
// block is replaced by the value stored.
func Results(r *ssa.Return) []ssa.Value {
	out := make([]ssa.Value, len(r.Results))
	for i, v := range r.Results {
		out[i] = v
		u, ok := v.(*ssa.UnOp)
		if !ok || u.Op != token.MUL {
			continue
		}
		al, ok := u.X.(*ssa.Alloc)
		if !ok {
			continue
		}
		b := r.Block()
		for _, in := range b.Instrs {
			if in == ssa.Instruction(u) {
				break
			}
			if st, ok := in.(*ssa.Store); ok && st.Addr == ssa.Value(al) {
				out[i] = st.Val
			}
		}
	}
	return out
}
