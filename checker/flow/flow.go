// Package flow answers path questions on a function's SSA control-flow graph.
package flow

import (
	"golang.org/x/tools/go/ssa"
)

// Loc is a position in a function: instruction index i of block B.
type Loc struct {
	B *ssa.BasicBlock
	I int
}

// LocOf finds the location of an instruction.
func LocOf(in ssa.Instruction) Loc {
	b := in.Block()
	for i, x := range b.Instrs {
		if x == in {
			return Loc{b, i}
		}
	}
	return Loc{b, -1}
}

// Dominates reports whether instruction a is executed before b on every path from the entry to b.
func Dominates(a, b ssa.Instruction) bool {
	la, lb := LocOf(a), LocOf(b)
	if la.B == lb.B {
		return la.I < lb.I
	}
	return la.B.Dominates(lb.B)
}

// Escape describes how a search left the function.
type Escape struct {
	Exit ssa.Instruction   // the Return (or Panic) reached
	Path []*ssa.BasicBlock // blocks visited from the start block to the exit block
}

// ExitsAvoiding searches the CFG forward from just after `from` (or from the function entry when
// from is nil) for a path to a normal return that passes no instruction satisfying stop.
// It returns the first such path, or nil when every path to a return passes a stop instruction.
// Paths ending in an explicit panic are ignored unless panicsCount is set.
func ExitsAvoiding(fn *ssa.Function, from ssa.Instruction, stop func(ssa.Instruction) bool, panicsCount bool) *Escape {
	type item struct {
		b    *ssa.BasicBlock
		i    int
		path []*ssa.BasicBlock
	}
	var start item
	if from == nil {
		if len(fn.Blocks) == 0 {
			return nil
		}
		start = item{fn.Blocks[0], 0, []*ssa.BasicBlock{fn.Blocks[0]}}
	} else {
		l := LocOf(from)
		start = item{l.B, l.I + 1, []*ssa.BasicBlock{l.B}}
	}
	seen := map[*ssa.BasicBlock]bool{}
	stack := []item{start}
	for len(stack) > 0 {
		it := stack[len(stack)-1]
		stack = stack[:len(stack)-1]
		blocked := false
		for k := it.i; k < len(it.b.Instrs); k++ {
			in := it.b.Instrs[k]
			if stop(in) {
				blocked = true
				break
			}
			switch in.(type) {
			case *ssa.Return:
				return &Escape{Exit: in, Path: it.path}
			case *ssa.Panic:
				if panicsCount {
					return &Escape{Exit: in, Path: it.path}
				}
				blocked = true
			}
			if blocked {
				break
			}
		}
		if blocked {
			continue
		}
		for _, s := range it.b.Succs {
			if seen[s] {
				continue
			}
			seen[s] = true
			np := append(append([]*ssa.BasicBlock{}, it.path...), s)
			stack = append(stack, item{s, 0, np})
		}
	}
	return nil
}

// Reaches reports whether some CFG path leads from just after a to b (b may equal a when a is in a cycle).
func Reaches(a, b ssa.Instruction) bool {
	la, lb := LocOf(a), LocOf(b)
	if la.B == lb.B && la.I < lb.I {
		return true
	}
	seen := map[*ssa.BasicBlock]bool{}
	stack := append([]*ssa.BasicBlock{}, la.B.Succs...)
	for len(stack) > 0 {
		x := stack[len(stack)-1]
		stack = stack[:len(stack)-1]
		if seen[x] {
			continue
		}
		seen[x] = true
		if x == lb.B {
			return true
		}
		stack = append(stack, x.Succs...)
	}
	return false
}

// InCycle reports whether block b lies on a CFG cycle.
func InCycle(b *ssa.BasicBlock) bool {
	seen := map[*ssa.BasicBlock]bool{}
	stack := append([]*ssa.BasicBlock{}, b.Succs...)
	for len(stack) > 0 {
		x := stack[len(stack)-1]
		stack = stack[:len(stack)-1]
		if x == b {
			return true
		}
		if seen[x] {
			continue
		}
		seen[x] = true
		stack = append(stack, x.Succs...)
	}
	return false
}

// OnlyViaEdge reports whether every path from the function entry to block target uses the CFG
// edge from→from.Succs[succIdx].
func OnlyViaEdge(fn *ssa.Function, target *ssa.BasicBlock, from *ssa.BasicBlock, succIdx int) bool {
	if len(fn.Blocks) == 0 {
		return false
	}
	entry := fn.Blocks[0]
	seen := map[*ssa.BasicBlock]bool{entry: true}
	stack := []*ssa.BasicBlock{entry}
	for len(stack) > 0 {
		x := stack[len(stack)-1]
		stack = stack[:len(stack)-1]
		if x == target {
			return false
		}
		for i, s := range x.Succs {
			if x == from && i == succIdx {
				continue
			}
			if !seen[s] {
				seen[s] = true
				stack = append(stack, s)
			}
		}
	}
	return true
}

// Guard is one branch decision that controls a block: the If instruction and which edge.
type Guard struct {
	If     *ssa.If
	Branch bool // true: the block is only reachable through the true edge
}

// Guards returns every (If, branch) such that target is reachable from the entry only through that
// edge of the If.
func Guards(fn *ssa.Function, target *ssa.BasicBlock) []Guard {
	var out []Guard
	for _, b := range fn.Blocks {
		if len(b.Instrs) == 0 {
			continue
		}
		ifi, ok := b.Instrs[len(b.Instrs)-1].(*ssa.If)
		if !ok {
			continue
		}
		if b == target {
			continue
		}
		if OnlyViaEdge(fn, target, b, 0) {
			out = append(out, Guard{ifi, true})
		} else if OnlyViaEdge(fn, target, b, 1) {
			out = append(out, Guard{ifi, false})
		}
	}
	return out
}

// BlocksReachableAvoiding returns the blocks reachable from start without entering a block in avoid.
func BlocksReachableAvoiding(start *ssa.BasicBlock, avoid map[*ssa.BasicBlock]bool) map[*ssa.BasicBlock]bool {
	seen := map[*ssa.BasicBlock]bool{}
	if avoid[start] {
		return seen
	}
	stack := []*ssa.BasicBlock{start}
	seen[start] = true
	for len(stack) > 0 {
		x := stack[len(stack)-1]
		stack = stack[:len(stack)-1]
		for _, s := range x.Succs {
			if !seen[s] && !avoid[s] {
				seen[s] = true
				stack = append(stack, s)
			}
		}
	}
	return seen
}

// PostDom holds the post-dominator sets of a function (virtual exit joins all returns/panics).
type PostDom struct {
	fn   *ssa.Function
	pdom map[*ssa.BasicBlock]map[*ssa.BasicBlock]bool // pdom[b] = set of blocks post-dominating b (incl. b)
}

// NewPostDom computes post-dominators by the classic iterative set algorithm (functions are small).
func NewPostDom(fn *ssa.Function) *PostDom {
	p := &PostDom{fn: fn, pdom: map[*ssa.BasicBlock]map[*ssa.BasicBlock]bool{}}
	all := map[*ssa.BasicBlock]bool{}
	for _, b := range fn.Blocks {
		all[b] = true
	}
	isExit := func(b *ssa.BasicBlock) bool { return len(b.Succs) == 0 }
	for _, b := range fn.Blocks {
		if isExit(b) {
			p.pdom[b] = map[*ssa.BasicBlock]bool{b: true}
		} else {
			s := map[*ssa.BasicBlock]bool{}
			for k := range all {
				s[k] = true
			}
			p.pdom[b] = s
		}
	}
	changed := true
	for changed {
		changed = false
		for i := len(fn.Blocks) - 1; i >= 0; i-- {
			b := fn.Blocks[i]
			if isExit(b) {
				continue
			}
			var inter map[*ssa.BasicBlock]bool
			for _, s := range b.Succs {
				if inter == nil {
					inter = map[*ssa.BasicBlock]bool{}
					for k := range p.pdom[s] {
						inter[k] = true
					}
				} else {
					for k := range inter {
						if !p.pdom[s][k] {
							delete(inter, k)
						}
					}
				}
			}
			if inter == nil {
				inter = map[*ssa.BasicBlock]bool{}
			}
			inter[b] = true
			if len(inter) != len(p.pdom[b]) {
				p.pdom[b] = inter
				changed = true
			}
		}
	}
	return p
}

// PostDominates reports whether a post-dominates b.
func (p *PostDom) PostDominates(a, b *ssa.BasicBlock) bool { return p.pdom[b][a] }

// ControlDeps returns the branch decisions block target is directly control dependent on:
// edges X→Y (X ending in If) such that target post-dominates Y (or is Y) but not X.
func (p *PostDom) ControlDeps(target *ssa.BasicBlock) []Guard {
	var out []Guard
	for _, x := range p.fn.Blocks {
		if len(x.Instrs) == 0 {
			continue
		}
		ifi, ok := x.Instrs[len(x.Instrs)-1].(*ssa.If)
		if !ok {
			continue
		}
		for i, y := range x.Succs {
			if (y == target || p.PostDominates(target, y)) && !(x != target && p.PostDominates(target, x)) {
				out = append(out, Guard{ifi, i == 0})
			}
		}
	}
	return out
}

// ControlDepsTransitive follows control dependence upwards (bounded) and returns all decisions.
func (p *PostDom) ControlDepsTransitive(target *ssa.BasicBlock) []Guard {
	seen := map[*ssa.BasicBlock]bool{target: true}
	var out []Guard
	work := []*ssa.BasicBlock{target}
	for len(work) > 0 {
		b := work[0]
		work = work[1:]
		for _, g := range p.ControlDeps(b) {
			out = append(out, g)
			if gb := g.If.Block(); !seen[gb] {
				seen[gb] = true
				work = append(work, gb)
			}
		}
	}
	return out
}
