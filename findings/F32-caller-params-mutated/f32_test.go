package mcp

import (
	"encoding/json"
	"net/http/httptest"
	"strings"

	"trpc.group/trpc-go/trpc-mcp-go/internal/sseutil"
	"testing"
)

// F32: a tool handler that sends two custom notifications with ONE params map (carrying _meta) must see both
// notifications arrive with _meta. Before the fix SendCustomNotification deleted "_meta" from the caller's map, so the
// second notification went out without it (C10: "with method, parameters and _meta intact").
func TestF32CallerParamsNotMutated(t *testing.T) {
	rec := httptest.NewRecorder()
	sender := newSSENotificationSender(rec, rec, "s1", sseutil.NewWriter())
	params := map[string]interface{}{"step": 1, "_meta": map[string]interface{}{"trace": "abc"}}
	for i := 0; i < 2; i++ {
		if err := sender.SendCustomNotification("custom/progress", params); err != nil {
			t.Fatal(err)
		}
	}
	if _, ok := params["_meta"]; !ok {
		t.Errorf("the caller's params map lost its _meta member")
	}
	n := 0
	for _, line := range strings.Split(rec.Body.String(), "\n") {
		if !strings.HasPrefix(line, "data: ") {
			continue
		}
		n++
		var msg struct {
			Params map[string]interface{} `json:"params"`
		}
		if err := json.Unmarshal([]byte(strings.TrimPrefix(line, "data: ")), &msg); err != nil {
			t.Fatal(err)
		}
		if _, ok := msg.Params["_meta"]; !ok {
			t.Errorf("notification #%d arrived without _meta: %s", n, line)
		}
	}
	if n != 2 {
		t.Fatalf("expected 2 notifications, got %d", n)
	}
	// the exported constructors as well
	p2 := map[string]interface{}{"a": 1, "_meta": map[string]interface{}{"k": "v"}}
	NewNotification("x", p2)
	NewJSONRPCNotificationFromMap("x", p2)
	if _, ok := p2["_meta"]; !ok {
		t.Errorf("NewNotification / NewJSONRPCNotificationFromMap removed _meta from the caller's map")
	}
}
