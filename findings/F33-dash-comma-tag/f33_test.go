package schema

import (
	"encoding/json"
	"strings"
	"testing"
)

// F33: encoding/json drops a field only for the tag `json:"-"`; a field tagged `json:"-,"` is emitted as a member
// named "-". Every generation style must name that member (C18: "names exactly the JSON field names encoding/json
// uses for the type"). Before the fix the inline and $defs generators skipped it.
type f33T struct {
	Kept    int    `json:"-,"`
	Dropped string `json:"-"`
	Plain   string `json:"plain"`
}

func TestF33DashCommaTagIsAMember(t *testing.T) {
	enc, _ := json.Marshal(f33T{Kept: 1, Dropped: "x", Plain: "p"})
	var asMap map[string]interface{}
	_ = json.Unmarshal(enc, &asMap)
	if _, ok := asMap["-"]; !ok {
		t.Fatalf("precondition: encoding/json emits a member named \"-\": %s", enc)
	}
	for _, style := range []ReferenceStyle{RefStyleInline, RefStyleDefs, RefStyleNested} {
		s := ConvertStructToOpenAPISchemaWithOptions[f33T](ConverterOptions{RefStyle: style, MaxInlineDepth: 6})
		doc, _ := json.Marshal(s)
		if !strings.Contains(string(doc), `"-":`) {
			t.Errorf("style %d: the schema does not name the member \"-\" that encoding/json emits: %s", style, doc)
		}
		if strings.Contains(string(doc), `"Dropped":`) {
			t.Errorf("style %d: the schema names a field that encoding/json drops: %s", style, doc)
		}
	}
}
