#!/bin/sh
# usage: ./check.sh <Cnn> quick|thorough|explain [replay-file]
# Rebuilds the checker when its sources are newer than the binary, then analyses /repo's
# current working tree. Exit 0 = holds (known findings printed), 1 = VIOLATION, 2 = check broken.
cd "$(dirname "$0")"
export GOFLAGS=-mod=mod GOPROXY=off GOSUMDB=off GOTOOLCHAIN=local
unset GOWORK
BIN=bin/mcpcheck
if [ ! -x "$BIN" ] || [ -n "$(find checker -name '*.go' -newer "$BIN" 2>/dev/null | head -1)" ]; then
  ./setup.sh >/dev/null || { echo "CHECK-BROKEN: checker does not build"; exit 2; }
fi
PROP="$1"; TIER="${2:-quick}"; shift; shift
exec "$BIN" -prop "$PROP" -tier "$TIER" -repo "${VERIF_REPO:-/repo}" -verif "$(pwd)" "$@"
